import sys, os
sys.path[:0] = ['/repo', '/verif']
from vf import corpus, shroud_run, core
def job(e):
    av = list(e.cmdline) + ["--path", corpus.INPUT]
    r = shroud_run.run_yaml(e.text(), ["--nowrite-version"] + e.argv(), name=e.yaml[:-5])
    ref = os.path.join(core.REPO, "regression", "reference", e.name)
    diffs = []
    for f, data in r.files.items():
        if f.endswith(".log"): continue
        rp = os.path.join(ref, f)
        if not os.path.exists(rp): diffs.append("missing-ref:"+f); continue
        if open(rp,'rb').read() != data: diffs.append(f)
    return e.name, r.describe(), diffs
bad=0
for n, d, diffs in core.pool_map(job, corpus.entries()):
    if d!='ok' or diffs: print(n, d, diffs[:6]); bad+=1
print("bad", bad)
