#!/bin/sh
# Run the pinned suite of /repo (guard off) and print the summary line; exit 0 iff 91 passed.
cd /repo && env -u VSOCH_SHROUD_VERIF /venv/bin/python -m pytest -ra -q -p no:cacheprovider --timeout=900 --continue-on-collection-errors 2>&1 | tail -3 | tee /tmp/repotest.out
grep -q "91 passed" /tmp/repotest.out
