#!/venv/bin/python
"""Sensitivity helper: apply a textual mutation to /repo, run a check, restore.
usage: mut.py <check-id> <file relative to /repo> <old> <new> [--tier T] [--count N]
The mutation is undone with `git checkout` whatever happens."""
import subprocess, sys, os
def main():
    pid, rel, old, new = sys.argv[1:5]
    rest = sys.argv[5:]
    path = os.path.join("/repo", rel)
    s = open(path).read()
    n = s.count(old)
    if n == 0:
        print("MUT: pattern not found"); return 3
    s2 = s.replace(old, new, 1)
    open(path, "w").write(s2)
    try:
        cp = subprocess.run(["/verif/check", pid] + rest, capture_output=True, text=True)
        out = cp.stdout + cp.stderr
        lines = [l for l in out.split("\n") if l.startswith(("VIOLATION", "KNOWN", "HARNESS", pid))]
        print("\n".join(lines[:8]))
        print("MUT rc=%d (%s)" % (cp.returncode, "CAUGHT" if cp.returncode == 1 else "MISSED" if cp.returncode == 0 else "HARNESS"))
        if "-v" in os.environ.get("MUT_FLAGS", ""):
            print(out[-3000:])
    finally:
        subprocess.run(["git", "-C", "/repo", "checkout", "--", rel])
    return 0
sys.exit(main())
