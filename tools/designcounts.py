#!/venv/bin/python
"""Refresh the 'quick cases (nt)' column of DESIGN.md section 11 from evidence/*.json (quick-tier runs)
and replace the seeded-change table (between the markers) with `seed.py table` output."""
import json, os, re, subprocess, sys
V = os.path.dirname(os.path.dirname(os.path.abspath(__file__)))
p = os.path.join(V, "DESIGN.md")
s = open(p).read()
for i in range(1, 19):
    pid = "C%02d" % i
    ev = json.load(open(os.path.join(V, "evidence", pid + ".json")))
    if ev.get("tier") != "quick":
        continue
    cov = ev["coverage"]
    cell = "%d (%d)" % (cov["evaluations"], cov["distinct_nontrivial"])
    m = re.search(r"^\| %s \|.*$" % pid, s, re.M)
    if not m:
        continue
    parts = m.group(0).split(" | ")
    if len(parts) >= 5:
        parts[-2] = cell
        s = s[:m.start()] + " | ".join(parts) + s[m.end():]
table = subprocess.check_output([os.path.join(V, "tools", "seed.py"), "table"], text=True)
begin, end = "<!-- seeded table begin -->", "<!-- seeded table end -->"
if "SEEDED_TABLE_PLACEHOLDER" in s:
    s = s.replace("SEEDED_TABLE_PLACEHOLDER", begin + "\n" + table + end)
else:
    a, b = s.index(begin), s.index(end)
    s = s[:a] + begin + "\n" + table + s[b:]
open(p, "w").write(s)
