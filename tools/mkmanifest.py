#!/venv/bin/python
"""Regenerate /verif/MANIFEST.json from the table in vf/registry.py and validate it."""
import json, os, sys
sys.path.insert(0, "/verif")
from vf import registry
props = [json.loads(l) for l in open("/verif/properties.jsonl")]
ids = [p["id"] for p in props]
checks = []
for pid in ids:
    e = registry.CHECKS.get(pid)
    if not e:
        continue
    checks.append({
        "property_id": pid,
        "quick_cmd": "./check %s --tier quick" % pid,
        "thorough_cmd": "./check %s --tier thorough" % pid,
        "evidence_file": "evidence/%s.json" % pid,
        "replay_cmd_template": "./check %s --replay {path}" % pid,
        "engine": "vf",
        "level_claimed": {"category": e["level"], "text": e["text"], "design_ref": e["design_ref"]},
        "level_note": e["note"],
        "technique": e["technique"],
    })
na = [{"property_id": pid, "reason": registry.NOT_CLAIMED.get(pid, "check not finished yet (not claimed)")}
      for pid in ids if pid not in registry.CHECKS]
m = {
    "version": 1,
    "setup_cmd": registry.SETUP,
    "hooks": registry.HOOKS,
    "engines": [{"name": "vf", "path": "vf/", "serves_properties": [c["property_id"] for c in checks],
                 "kind_free_text": "Hypothesis-driven property-based testing / exhaustive small-scope enumeration / atheris fuzzing with explicit oracles (reference models, compilers, round trips, metamorphic relations)"}],
    "checks": checks,
    "notes": registry.NOTES,
    "not_applicable": na,
}
json.dump(m, open("/verif/MANIFEST.json", "w"), indent=1)
try:
    import jsonschema
    jsonschema.validate(m, json.load(open("/root/.vp/MANIFEST.schema.json")))
    print("manifest valid;", len(checks), "checks")
except ImportError:
    print("jsonschema not available; wrote", len(checks), "checks")
