#!/venv/bin/python
"""Seeded-change bookkeeping.

  seed.py verify <ID> <A|B>            confirm a sub-agent deliverable in a fresh scratch worktree
                                       (patch applies, pinned suite 91 passed, demo fails with /
                                       passes without) and store it as /verif/seeded/<ID>-<X>/
  seed.py run <name> [--tier T] [IDs]  apply seeded/<name>/patch.diff to /repo, run the checks
                                       (default: the property the change targets), undo, record
                                       the outcome in meta.json
  seed.py table                        print the DESIGN.md table from all meta.json files
"""
import json, os, shutil, subprocess, sys, tempfile, time

VERIF = os.path.dirname(os.path.dirname(os.path.abspath(__file__)))
SEEDED = os.path.join(VERIF, "seeded")


def sh(cmd, cwd=None, env=None, timeout=3600):
    cp = subprocess.run(cmd, cwd=cwd, env=env, capture_output=True, text=True, timeout=timeout)
    return cp.returncode, cp.stdout + cp.stderr


def verify(pid, x, srcroot=None, store_as=None):
    src = "%s/%s" % (srcroot or ("/tmp/seed_%s" % pid), x)
    patch = os.path.join(src, "patch.diff")
    demo = os.path.join(src, "demo.py")
    for p in (patch, demo):
        if not os.path.exists(p):
            print("missing", p)
            return 2
    wt = tempfile.mkdtemp(prefix="vfseed_wt_")
    os.rmdir(wt)
    res = {}
    try:
        rc, out = sh(["git", "-C", "/repo", "worktree", "add", "--detach", wt, "HEAD"])
        assert rc == 0, out
        env = dict(os.environ, PYTHONPATH=wt)
        env.pop("VSOCH_SHROUD_VERIF", None)
        rc, out = sh(["/venv/bin/python", demo, wt], cwd=src, env=env)
        res["demo_clean_rc"] = rc
        res["demo_clean_tail"] = out[-600:]
        rc, out = sh(["git", "-C", wt, "apply", patch])
        res["applies"] = rc == 0
        if rc != 0:
            print("patch does not apply:", out)
            return 1
        rc, out = sh(["/venv/bin/python", "-m", "pytest", "-q", "-p", "no:cacheprovider", "--continue-on-collection-errors"], cwd=wt, env=env)
        res["suite"] = [l for l in out.split("\n") if "passed" in l or "failed" in l][-1:] or [out[-200:]]
        res["suite_ok"] = any("91 passed" in l for l in res["suite"]) and not any("failed" in l for l in res["suite"])
        rc, out = sh(["/venv/bin/python", "-m", "compileall", "-q", os.path.join(wt, "shroud")], env=env)
        res["compiles"] = rc == 0
        rc, out = sh(["/venv/bin/python", demo, wt], cwd=src, env=env)
        res["demo_patched_rc"] = rc
        res["demo_patched_tail"] = out[-600:]
        rc, out = sh(["git", "-C", wt, "diff", "--stat"])
        res["diffstat"] = out.strip().split("\n")
    finally:
        sh(["git", "-C", "/repo", "worktree", "remove", "--force", wt])
        shutil.rmtree(wt, ignore_errors=True)
        sh(["git", "-C", "/repo", "worktree", "prune"])
    ok = res.get("applies") and res.get("suite_ok") and res.get("compiles") and res["demo_clean_rc"] == 0 and res["demo_patched_rc"] != 0
    print(json.dumps(res, indent=1))
    print("VERIFIED" if ok else "REJECTED")
    if not ok:
        return 1
    name = "%s-%s" % (pid, store_as or x)
    dst = os.path.join(SEEDED, name)
    os.makedirs(dst, exist_ok=True)
    shutil.copy(patch, os.path.join(dst, "patch.diff"))
    shutil.copy(demo, os.path.join(dst, "demo.py"))
    notes = os.path.join(src, "NOTES.md")
    meta = {"name": name, "property": pid, "author": "independent sub-agent given only the property text and a scratch worktree",
            "needs_to_manifest": "", "what": "",
            "agent_notes": open(notes).read() if os.path.exists(notes) else "",
            "confirmed": {"patch_applies": True, "pinned_suite": res["suite"], "demo_rc_with_change": res["demo_patched_rc"],
                          "demo_rc_without_change": res["demo_clean_rc"], "demo_tail_with_change": res["demo_patched_tail"],
                          "commands": ["git worktree add --detach <scratch> HEAD", "python demo.py <scratch>  (unchanged: exit 0)",
                                       "git -C <scratch> apply patch.diff", "pytest -q (91 passed)", "python demo.py <scratch>  (changed: exit != 0)"]},
            "checks": {}}
    mp = os.path.join(dst, "meta.json")
    if os.path.exists(mp):
        old = json.load(open(mp))
        for k in ("needs_to_manifest", "what", "checks"):
            meta[k] = old.get(k, meta[k])
    json.dump(meta, open(mp, "w"), indent=1)
    print("stored", dst)
    return 0


def run_scratch(name, ids, tier, record=False):
    """Development variant: the change is applied to a scratch worktree and the checks run with
    VERIF_REPO pointing there, so several seeded changes can be tried at once; nothing is recorded."""
    d = os.path.join(SEEDED, name)
    meta = json.load(open(os.path.join(d, "meta.json")))
    ids = ids or [meta["property"]]
    wt = tempfile.mkdtemp(prefix="vfseed_wt_")
    os.rmdir(wt)
    try:
        rc, out = sh(["git", "-C", "/repo", "worktree", "add", "--detach", wt, "HEAD"])
        assert rc == 0, out
        rc, out = sh(["git", "-C", wt, "apply", os.path.join(d, "patch.diff")])
        assert rc == 0, out
        for pid in ids:
            t0 = time.time()
            env = dict(os.environ, VERIF_REPO=wt)
            rc, out = sh([os.path.join(VERIF, "check"), pid, "--tier", tier], cwd=VERIF, env=env, timeout=14400)
            lines = [l for l in out.split("\n") if l.startswith(("VIOLATION", "HARNESS"))]
            print(name, pid, tier, "caught" if rc == 1 else "missed" if rc == 0 else "harness-error", "%.0fs" % (time.time() - t0), flush=True)
            if record:
                meta["checks"]["%s/%s" % (pid, tier)] = {"verdict": "caught" if rc == 1 else "missed" if rc == 0 else "harness-error", "rc": rc,
                                                         "wall_s": round(time.time() - t0, 1), "lines": [l[:300] for l in lines[:4]],
                                                         "how": "patch applied to a scratch worktree of /repo HEAD, check run with VERIF_REPO pointing at it"}
            for l in lines[:3]:
                print("   ", l[:300], flush=True)
            shutil.rmtree(os.path.join(VERIF, "replays", pid), ignore_errors=True)
    finally:
        sh(["git", "-C", "/repo", "worktree", "remove", "--force", wt])
        shutil.rmtree(wt, ignore_errors=True)
        sh(["git", "-C", "/repo", "worktree", "prune"])
    if record:
        json.dump(meta, open(os.path.join(d, "meta.json"), "w"), indent=1)
    return 0


def run(name, ids, tier):
    d = os.path.join(SEEDED, name)
    meta = json.load(open(os.path.join(d, "meta.json")))
    ids = ids or [meta["property"]]
    rc, out = sh(["git", "-C", "/repo", "status", "--porcelain", "--untracked-files=no"])
    assert out.strip() == "", "/repo not clean: " + out
    rc, out = sh(["git", "-C", "/repo", "apply", os.path.join(d, "patch.diff")])
    assert rc == 0, out
    try:
        for pid in ids:
            t0 = time.time()
            env = dict(os.environ)
            rc, out = sh([os.path.join(VERIF, "check"), pid, "--tier", tier], cwd=VERIF, env=env, timeout=7200)
            lines = [l for l in out.split("\n") if l.startswith(("VIOLATION", "HARNESS"))]
            verdict = "caught" if rc == 1 else "missed" if rc == 0 else "harness-error"
            meta["checks"]["%s/%s" % (pid, tier)] = {"verdict": verdict, "rc": rc, "wall_s": round(time.time() - t0, 1),
                                                     "lines": [l[:300] for l in lines[:4]]}
            print(name, pid, tier, verdict, "%.0fs" % (time.time() - t0))
            for l in lines[:4]:
                print("   ", l[:300])
            if rc == 2:
                print(out[-1500:])
    finally:
        sh(["git", "-C", "/repo", "checkout", "--", "."])
        shutil.rmtree(os.path.join(VERIF, "replays"), ignore_errors=True)
    json.dump(meta, open(os.path.join(d, "meta.json"), "w"), indent=1)
    return 0


def table():
    print("| change | targets | what it does / needs | caught by | missed by |")
    print("|---|---|---|---|---|")
    for name in sorted(os.listdir(SEEDED)):
        mp = os.path.join(SEEDED, name, "meta.json")
        if not os.path.exists(mp):
            continue
        m = json.load(open(mp))
        c = [k for k, v in m["checks"].items() if v["verdict"] == "caught"]
        x = [k for k, v in m["checks"].items() if v["verdict"] != "caught"]
        print("| %s | %s | %s — needs: %s | %s | %s |" % (name, m["property"], m["what"], m["needs_to_manifest"], ", ".join(c) or "-", ", ".join(x) or "-"))


def main():
    a = sys.argv[1:]
    if a[0] == "verify":
        srcroot = store_as = None
        if "--src" in a:
            i = a.index("--src")
            srcroot = a[i + 1]
            del a[i:i + 2]
        if "--as" in a:
            i = a.index("--as")
            store_as = a[i + 1]
            del a[i:i + 2]
        return verify(a[1], a[2], srcroot, store_as)
    if a[0] == "run":
        tier = "quick"
        if "--tier" in a:
            i = a.index("--tier")
            tier = a[i + 1]
            del a[i:i + 2]
        return run(a[1], a[2:], tier)
    if a[0] == "try":
        tier = "quick"
        if "--tier" in a:
            i = a.index("--tier")
            tier = a[i + 1]
            del a[i:i + 2]
        rec = "--record" in a
        if rec:
            a.remove("--record")
        return run_scratch(a[1], a[2:], tier, rec)
    if a[0] == "table":
        return table()


sys.exit(main())
