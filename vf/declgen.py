"""Grammar-based generator of C/C++ declarations in the grammar Shroud documents
(declast.py docstrings, docs/declarations.rst, docs/pointers.rst).

A generated declaration is a dict
    text      declaration text with Shroud attributes
    cxx       the same text with attributes removed (valid C++ given PRELUDE)
    model     the structure a C++ compiler derives (see `mk_model`)
    context   'library' | 'class'
    feats     list of feature labels (for the distribution report)
Only legal C++ is generated (references only as the last declarator operator,
no arrays of references, cv-qualified function only inside a class).
"""
from hypothesis import strategies as st

# type-specifier spellings in the orders declast.canonical_typemap documents
NATIVE_SPELLINGS = [
    (["short"], "short"), (["short", "int"], "short"),
    (["int"], "int"),
    (["long"], "long"), (["long", "int"], "long"),
    (["long", "long"], "long long"), (["long", "long", "int"], "long long"),
    (["unsigned"], "unsigned int"), (["unsigned", "int"], "unsigned int"),
    (["unsigned", "short"], "unsigned short"), (["unsigned", "short", "int"], "unsigned short"),
    (["unsigned", "long"], "unsigned long"), (["unsigned", "long", "int"], "unsigned long"),
    (["unsigned", "long", "long"], "unsigned long long"),
    (["unsigned", "long", "long", "int"], "unsigned long long"),
    (["float"], "float"), (["double"], "double"), (["char"], "char"), (["bool"], "bool"),
    (["size_t"], "size_t"), (["int8_t"], "int8_t"), (["int16_t"], "int16_t"),
    (["int32_t"], "int32_t"), (["int64_t"], "int64_t"), (["uint8_t"], "uint8_t"),
    (["uint16_t"], "uint16_t"), (["uint32_t"], "uint32_t"), (["uint64_t"], "uint64_t"),
]
# names declared in the parse namespace by `make_library` / PRELUDE
NAMED_TYPES = [
    (["std::string"], "std::string"), (["Class1"], "Class1"), (["ns1::Inner"], "ns1::Inner"),
    (["TypeID"], "TypeID"), (["Color"], "Color"), (["Str1"], "Str1"),
    (["ns1::ns2::Deep"], "ns1::ns2::Deep"),
]
VECTOR_ARGS = ["int", "double", "long", "float", "std::string"]

PRELUDE = """
#include <string>
#include <vector>
#include <cstddef>
#include <cstdint>
#include <type_traits>
using std::size_t;
class Class1 { public: int m; };
namespace ns1 { class Inner {}; namespace ns2 { class Deep {}; } }
typedef int TypeID;
enum Color { RED, BLUE };
struct Str1 { int i; };
"""

SETUP_DECLS = [
    ("library", "class Class1"),
    ("library", "namespace ns1"),
    ("ns1", "class Inner"),
    ("ns1", "namespace ns2"),
    ("ns1::ns2", "class Deep"),
    ("library", "typedef int TypeID"),
    ("library", "enum Color { RED, BLUE }"),
    ("library", "struct Str1 { int i; }"),
]


def make_library():
    """A fresh LibraryNode with the symbols of PRELUDE.  Returns (library, class1)."""
    from shroud import ast, typemap
    typemap.initialize()
    lib = ast.LibraryNode(library="cc")
    nodes = {"library": lib}
    for where, decl in SETUP_DECLS:
        n = nodes[where].add_declaration(decl)
        if decl.startswith("namespace "):
            nm = decl.split()[1]
            nodes[(where + "::" + nm) if where != "library" else nm] = n
        if decl == "class Class1":
            nodes["Class1"] = n
    return lib, nodes["Class1"]


IDENT = st.sampled_from(["a", "arg1", "value", "p", "ptr", "name_2", "xCount", "in1", "out_v", "n"])
FNAME = st.sampled_from(["func", "get", "doWork", "update_it", "f2", "Apply"])

EXPRS = ["3", "n", "n+1", "2*n", "size(a)", "len(a)", "(n)", "n-1", "10,20", "n,2"]

ATTR_FORMS = [
    ("intent", ["(in)", "(out)", "(inout)"]),
    ("rank", ["(1)", "(2)", "=1", "=0", "(0)"]),      # rank 0: cdesc.yaml / generic.yaml
    ("dimension", ["(3)", "(n)", "(10,20)", "(n+1)", "(..)"]),
    ("len", ["(30)", "=30", "=0"]),
    ("charlen", ["(20)", "=20"]),
    ("value", [""]),
    ("hidden", [""]),
    ("deref", ["(raw)", "(pointer)", "(allocatable)", "(scalar)"]),
    ("owner", ["(caller)", "(library)"]),
    ("implied", ["(size(a))", "(len(a))", "(n+1)"]),
    ("name", ["(other)"]),
    ("readonly", [""]),
    ("assumedtype", [""]),
    ("external", [""]),
    ("free_pattern", ["(pat)"]),
    ("pure", [""]),
    ("custom_attr", ["", "(x)", "=4", "=0"]),
]


@st.composite
def base_type(draw, allow_void=False, allow_vector=True):
    """-> (tokens, canonical spelling, kind)"""
    r = draw(st.integers(0, 9))
    if allow_void and r == 0:
        return ["void"], "void", "void"
    if r <= 5:
        toks, canon = draw(st.sampled_from(NATIVE_SPELLINGS))
        return list(toks), canon, "native"
    if r <= 7 or not allow_vector:
        toks, canon = draw(st.sampled_from(NAMED_TYPES))
        return list(toks), canon, "named"
    arg = draw(st.sampled_from(VECTOR_ARGS))
    return ["std::vector<%s>" % arg], "std::vector<%s>" % arg, "vector"


@st.composite
def cv_spec(draw, toks):
    """Place cv-qualifiers before/after the specifier tokens.  -> (tokens, const, volatile)"""
    c = draw(st.integers(0, 9))
    const = c in (0, 1, 2, 3)
    vol = c in (3, 4)
    out = list(toks)
    quals = (["const"] if const else []) + (["volatile"] if vol else [])
    if quals:
        where = draw(st.sampled_from(["before", "after"]))
        if len(quals) == 2 and draw(st.booleans()):
            quals.reverse()
        out = quals + out if where == "before" else out + quals
    return out, const, vol


@st.composite
def ptr_chain(draw, max_depth=3, allow_ref=True):
    """-> list of (op, const, volatile); a reference only in last position."""
    n = draw(st.sampled_from([0, 0, 0, 1, 1, 1, 2, 2, 3][: 3 + 2 * max_depth]))
    ops = []
    for i in range(n):
        last = i == n - 1
        if last and allow_ref and draw(st.integers(0, 3)) == 0:
            ops.append(("&", False, False))
        else:
            q = draw(st.integers(0, 7))
            ops.append(("*", q in (0, 1), q in (1, 2) and draw(st.booleans())))
    return ops


def ptr_tokens(ops):
    t = []
    for op, c, v in ops:
        t.append(op)
        if c:
            t.append("const")
        if v:
            t.append("volatile")
    return t


@st.composite
def attributes(draw, maxn=2):
    n = draw(st.sampled_from([0, 0, 1, 1, 2][: 3 + maxn]))
    res = []
    seen = set()
    for _ in range(n):
        name, forms = draw(st.sampled_from(ATTR_FORMS))
        if name in seen:
            continue
        seen.add(name)
        res.append((name, draw(st.sampled_from(forms))))
    return res


def attr_tokens(attrs):
    t = []
    for name, form in attrs:
        t.append("+" + name + form)
    return t


def attr_model(attrs):
    """Expected recorded value, scalars compared as strings."""
    d = {}
    for name, form in attrs:
        if form == "":
            d[name] = "True"
        elif form.startswith("("):
            d[name] = form[1:-1]
        else:
            d[name] = form[1:]
    return d


def _rename(p, old, new):
    """Rename identifier `old` in a generated parameter (tokens and model, nested parameters too)."""
    p["tokens"] = [new if t == old else t for t in p["tokens"]]
    p["cxx_tokens"] = [new if t == old else t for t in p["cxx_tokens"]]

    def rec(m):
        if m.get("name") == old:
            m["name"] = new
        for q in m.get("params") or []:
            rec(q)
    rec(p["model"])


@st.composite
def variable(draw, depth=0, named=True, allow_attrs=True, allow_array=True, in_param=False):
    """A variable / parameter declaration."""
    # (parameters of a function pointer: no std::vector, callbacks take plain types)
    toks, canon, kind = draw(base_type(allow_void=True, allow_vector=(depth == 0)))
    spec, const, vol = draw(cv_spec(toks))
    ops = draw(ptr_chain())
    if canon == "void" and (not ops or ops[0][0] == "&"):
        ops = [("*", False, False)] + [o for o in ops if o[0] != "&"]
    # (inside class Class1 the text "Class1 (" starts a constructor, so the class
    # itself is never used as the result type of a function pointer)
    isfp = depth == 0 and draw(st.integers(0, 9)) == 0 and not (canon == "Class1" and not [o for o in ops if o[0] != "&"])
    name = draw(IDENT) if (named or isfp) else None
    arrays = []
    feats = []
    if isfp:
        # function pointer: T (*name)(params)
        nparam = draw(st.integers(0, 2))
        ps = [draw(variable(depth=1, named=draw(st.booleans()), allow_attrs=False, allow_array=False,
                            in_param=True)) for _ in range(nparam)]
        seen_names = set()
        for j, p_ in enumerate(ps):
            nm = p_["model"].get("name")
            if nm is not None and nm in seen_names:
                new = "%s_%d" % (nm, j)
                _rename(p_, nm, new)
                nm = new
            if nm:
                seen_names.add(nm)
        ops = [o for o in ops if o[0] != "&"]  # result type of the pointed-to function
        # the grouped declarator itself: pointer to function (the common one), pointer to pointer, const pointer,
        # reference to a function pointer, reference to a function
        inner = draw(st.sampled_from([[("*", False, False)]] * 6 + [[("*", False, False), ("*", False, False)], [("*", True, False)],
                                                                    [("*", False, False), ("&", False, False)], [("&", False, False)]]))
        inner = [tuple(o) for o in inner]
        out = spec + ptr_tokens(ops) + ["("] + ptr_tokens(inner) + [name, ")", "("]
        for i, p in enumerate(ps):
            if i:
                out.append(",")
            out += p["tokens"]
        out.append(")")
        cxx = list(out)
        model = dict(kind="fptr", base=canon, const=const, volatile=vol, ptrs=ops, name=name,
                     params=[p["model"] for p in ps], inner=[list(o) for o in inner])
        feats.append("fptr")
        if inner != [("*", False, False)]:
            feats.append("fptr-declarator:" + "".join(o[0] + ("c" if o[1] else "") for o in inner))
    elif depth == 0 and allow_array and named and draw(st.integers(0, 11)) == 0 and \
            not (canon == "Class1" and not [o for o in ops if o[0] != "&"]):
        # pointer to an array: T (*name)[n][m]   (a grouped declarator that is not a function pointer)
        ops = [o for o in ops if o[0] != "&"]
        if canon == "void" and not ops:
            ops = [("*", False, False)]
        pc = draw(st.integers(0, 3)) == 0
        arrays = [str(draw(st.integers(1, 20))) for _ in range(draw(st.integers(1, 2)))]
        out = spec + ptr_tokens(ops) + ["(", "*"] + (["const"] if pc else []) + [name, ")"]
        for a in arrays:
            out += ["[", a, "]"]
        cxx = list(out)
        model = dict(kind="parr", base=canon, const=const, volatile=vol, ptrs=ops, name=name, array=arrays, inner_const=pc)
        feats.append("ptr-to-array")
    else:
        if allow_array and (not ops or ops[-1][0] != "&") and canon != "void" or \
                (allow_array and canon == "void" and ops and ops[-1][0] == "*"):
            if draw(st.integers(0, 5)) == 0 and name:
                arrays = [str(draw(st.integers(1, 20))) for _ in range(draw(st.integers(1, 2)))]
        out = spec + ptr_tokens(ops) + ([name] if name else [])
        for a in arrays:
            out += ["[", a, "]"]
        cxx = list(out)
        model = dict(kind="var", base=canon, const=const, volatile=vol, ptrs=ops, name=name, array=arrays)
    attrs = draw(attributes()) if allow_attrs else []
    out = out + attr_tokens(attrs)
    model["attrs"] = attr_model(attrs)
    if len(ops) >= 2:
        feats.append("ptr%d" % len(ops))
    if any(c or v for _, c, v in ops) or (spec and spec[0] not in ("const", "volatile") and (const or vol)):
        feats.append("cv-inner")
    if vol:
        feats.append("volatile")
    if arrays:
        feats.append("array")
    if attrs:
        feats.append("attrs")
    return dict(tokens=out, cxx_tokens=cxx, model=model, feats=feats)


@st.composite
def func(draw, context="library"):
    toks, canon, kind = draw(base_type(allow_void=True))
    spec, const, vol = draw(cv_spec(toks))
    ops = draw(ptr_chain(max_depth=2))
    if canon == "void" and ops and ops[0][0] == "&":
        ops = []
    name = draw(FNAME)
    nparam = draw(st.integers(0, 4))
    ps = []
    used = set()
    for i in range(nparam):
        p = draw(variable(named=draw(st.integers(0, 9)) > 0, in_param=True))
        nm = p["model"].get("name")
        if nm in used:
            # rename duplicate parameter names
            new = "%s%d" % (nm, i)
            _rename(p, nm, new)
            nm = new
        if nm:
            used.add(nm)
        ps.append(p)
    # trailing default values
    ndef = draw(st.sampled_from([0, 0, 0, 1, 2]))
    defaults = {}
    for i in range(max(0, len(ps) - ndef), len(ps)):
        m = ps[i]["model"]
        if m["kind"] == "var" and not m["ptrs"] and not m.get("array") and m["name"] and \
                m["base"] in ("int", "long", "double", "float", "bool", "short", "unsigned int"):
            if all(j in defaults for j in range(i + 1, len(ps))) or i == len(ps) - 1 or True:
                defaults[i] = {"bool": "true", "double": "1.5", "float": "2.5"}.get(m["base"], "3")
    # keep defaults trailing only
    keep = {}
    for i in range(len(ps) - 1, -1, -1):
        if i in defaults:
            keep[i] = defaults[i]
        else:
            break
    out = spec + ptr_tokens(ops) + [name, "("]
    cxx = list(out)
    for i, p in enumerate(ps):
        if i:
            out.append(",")
            cxx.append(",")
        out += p["tokens"]
        cxx += p["cxx_tokens"]
        if i in keep:
            # '+flag = 3' reads as the attribute form +name=scalar (documented ambiguity): a
            # defaulted parameter keeps its attributes only if the last one has the (value) form
            at = [t for t in p["tokens"] if t.startswith("+")]
            if at and not at[-1].endswith(")"):
                p["tokens"] = [t for t in p["tokens"] if not t.startswith("+")]
                p["model"]["attrs"] = {}
                out = out[:len(out) - len(at)]
            out += ["=", keep[i]]
            cxx += ["=", keep[i]]
            p["model"]["init"] = keep[i]
    if not ps and draw(st.booleans()):
        out.append("void")
        cxx.append("void")
    out.append(")")
    cxx.append(")")
    fconst = context == "class" and draw(st.integers(0, 2)) == 0
    if fconst:
        out.append("const")
        cxx.append("const")
    attrs = draw(attributes(maxn=1))
    out += attr_tokens(attrs)
    feats = ["func"] + sorted(set(f for p in ps for f in p["feats"]))
    if keep:
        feats.append("default")
    if fconst:
        feats.append("const-method")
    if vol:
        feats.append("volatile")
    model = dict(kind="func", base=canon, const=const, volatile=vol, ptrs=ops, name=name,
                 params=[p["model"] for p in ps], func_const=fconst, attrs=attr_model(attrs))
    return dict(tokens=out, cxx_tokens=cxx, model=model, feats=feats, has_default=bool(keep))


@st.composite
def declaration(draw, context=None):
    context = context or draw(st.sampled_from(["library", "library", "class"]))
    if draw(st.integers(0, 3)) == 0:
        d = draw(variable(named=True))
        d["has_default"] = False
    else:
        d = draw(func(context=context))
    d["context"] = context
    sep = draw(st.sampled_from([" ", " ", " ", "  ", "\n"]))
    d["text"] = join_tokens(d["tokens"], sep)
    d["cxx"] = join_tokens(d["cxx_tokens"], " ")
    if draw(st.integers(0, 4)) == 0:
        d["text"] += ";"
    return d


def join_tokens(toks, sep=" "):
    return sep.join(toks)


# token alphabet for mutation / random sequences (C17)
ALPHABET = ["int", "long", "double", "char", "void", "bool", "unsigned", "short", "float", "const",
            "volatile", "static", "extern", "typedef", "class", "struct", "enum", "namespace",
            "template", "typename", "public", "std::string", "std::vector", "std", "Class1", "ns1",
            "Inner", "TypeID", "Color", "Str1", "size_t", "a", "b", "name", "func", "T",
            "(", ")", "[", "]", "{", "}", "<", ">", "*", "&", ",", ";", "::", ":", "...", "~",
            "=", "+", "-", "/", "0", "1", "42", "010", "1.5", "1e3", '"str"', "'c'", "+intent",
            "+dimension", "+rank", "+implied", "+len", "in", "out", "size", "..", "!", "@", "$", "%", "?", "\\", "#"]
