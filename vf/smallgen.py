"""Library-description generator (pattern catalogue, YAML projection, header and
stub implementation).

A library model is plain JSON-able data; `to_yaml(model)` gives the text fed to
Shroud, `header(model)` / `stub_impl(model)` give a subject library whose
declarations are the model's declarations with the Shroud attributes removed.

Every pattern row cites where the docs / corpus use it (see DESIGN.md M3).
Per-language admission (`py`, `lua`) says whether the docs or corpus use the
pattern with that wrapper switched on; non-admitted declarations get an explicit
per-declaration `wrap_python: False` / `wrap_lua: False`, exactly as the corpus
files do.
"""
import re

import yaml
from hypothesis import strategies as st

NATIVE_INT = ["short", "int", "long", "long long", "size_t", "int32_t", "int64_t",
              "unsigned int", "unsigned long", "uint32_t", "int8_t", "int16_t",
              "uint8_t", "uint16_t", "uint64_t", "unsigned short"]
NATIVE_FLT = ["float", "double"]
NATIVES = NATIVE_INT + NATIVE_FLT
ARRAY_T = ["int", "long", "float", "double"]

# identifier pool: CamelCase / snake_case, lower-case + underscore forms pairwise distinct
_WORDS = ["Alpha", "Beta", "Gamma", "Delta", "Omega", "Sigma", "Theta", "Kappa",
          "Lambda", "Zeta", "Rho", "Tau", "Phi", "Chi", "Psi", "Eta"]
_SNAKE = ["get_value", "set_flag", "compute", "apply_op", "fetch", "store_it",
          "update", "query", "reset_all", "scale_by", "lookup", "merge_in"]


class Names(object):
    """Deterministic unique-name allocator."""

    def __init__(self):
        self.used = set()
        self.n = 0

    def fresh(self, base):
        self.n += 1
        cand = "%s%d" % (base, self.n)
        low = cand.lower().replace("_", "")
        assert low not in self.used
        self.used.add(low)
        return cand


# ---------------------------------------------------------------------------
# parameter rows.  Each returns a list of param dicts (a row may add a
# companion parameter such as an implied size).

def P(name, ctype, attrs="", row="", T=None, py=True, lua=True, c=True, **kw):
    d = dict(name=name, ctype=ctype, attrs=attrs, row=row, T=T, py=py, lua=lua, c=c)
    d.update(kw)
    return d


def param_rows(lang):
    """name -> (builder(T, pname) -> [params], type pool)"""
    rows = {
        # declarations.rst "Numeric Arguments"
        "N1": (lambda T, n: [P(n, T + " " + n, "", "N1", T)], NATIVES),
        "N2in": (lambda T, n: [P(n, "const " + T + " *" + n, "", "N2in", T, lua=False)], NATIVES),
        "N2out": (lambda T, n: [P(n, T + " *" + n, "+intent(out)", "N2out", T, lua=False)], NATIVES),
        "N2inout": (lambda T, n: [P(n, T + " *" + n, "+intent(inout)", "N2inout", T, lua=False)], NATIVES),
        # pointers.rst / pointers.yaml: Sum, incrementIntArray, fillIntArray
        "N3in": (lambda T, n: [P(n, "const " + T + " *" + n, "+rank(1)", "N3in", T, lua=False),
                               P("n" + n, "int n" + n, "+implied(size(%s))" % n, "implied", "int", lua=False)],
                 ARRAY_T),
        "N3inout": (lambda T, n: [P(n, T + " *" + n, "+rank(1)+intent(inout)", "N3inout", T, lua=False),
                                  P("n" + n, "int n" + n, "+implied(size(%s))" % n, "implied", "int", lua=False)],
                    ARRAY_T),
        "N3out": (lambda T, n: [P(n, T + " *" + n, "+intent(out)+dimension(3)", "N3out", T, lua=False)],
                  ARRAY_T),
        # declarations.rst "Bool"; clibrary.yaml checkBool
        "B1": (lambda T, n: [P(n, "bool " + n, "", "B1", "bool")], ["bool"]),
        "B1out": (lambda T, n: [P(n, "bool *" + n, "+intent(out)", "B1out", "bool", lua=False)], ["bool"]),
        "B1inout": (lambda T, n: [P(n, "bool *" + n, "+intent(inout)", "B1inout", "bool", lua=False)], ["bool"]),
        # declarations.rst "Char"; strings.yaml passCharPtr, clibrary.yaml
        # (the Lua wrapper emits no declaration for const char * arguments; the corpus only uses std::string there)
        "S1in": (lambda T, n: [P(n, "const char *" + n, "", "S1in", "char", lua=False)], ["char"]),
        "S1out": (lambda T, n: [P(n, "char *" + n, "+intent(out)+charlen(20)", "S1out", "char", lua=False)], ["char"]),
        "S1inout": (lambda T, n: [P(n, "char *" + n, "+intent(inout)", "S1inout", "char", lua=False, py=False)], ["char"]),
        "S1c": (lambda T, n: [P(n, "char " + n, "", "S1c", "char", lua=False)], ["char"]),
    }
    if lang == "c++":
        rows.update({
            "N2ref": (lambda T, n: [P(n, T + " &" + n, "+intent(inout)", "N2ref", T, lua=False, c=False)], NATIVES),
            "N2refout": (lambda T, n: [P(n, T + " &" + n, "+intent(out)", "N2refout", T, lua=False, c=False)], NATIVES),
            # declarations.rst "std::string"; strings.yaml acceptString*
            "S3in": (lambda T, n: [P(n, "const std::string &" + n, "", "S3in", "string", c=False)], ["string"]),
            "S3out": (lambda T, n: [P(n, "std::string &" + n, "+intent(out)", "S3out", "string", c=False, lua=False)], ["string"]),
            "S3inout": (lambda T, n: [P(n, "std::string &" + n, "+intent(inout)", "S3inout", "string", c=False, lua=False)], ["string"]),
            "S3val": (lambda T, n: [P(n, "std::string " + n, "", "S3val", "string", c=False, lua=False)], ["string"]),
            "S3ptr": (lambda T, n: [P(n, "const std::string *" + n, "", "S3ptr", "string", c=False, lua=False)], ["string"]),
            # declarations.rst "std::vector"; vectors.yaml
            "V1in": (lambda T, n: [P(n, "const std::vector<%s> &%s" % (T, n), "", "V1in", T, c=False, lua=False)], ["int", "double"]),
            "V1out": (lambda T, n: [P(n, "std::vector<%s> &%s" % (T, n), "+intent(out)", "V1out", T, c=False, lua=False)], ["int", "double"]),
            "V1inout": (lambda T, n: [P(n, "std::vector<%s> &%s" % (T, n), "+intent(inout)", "V1inout", T, c=False, lua=False, py=False)], ["int", "double"]),
            "V1alloc": (lambda T, n: [P(n, "std::vector<%s> &%s" % (T, n), "+intent(out)+deref(allocatable)", "V1alloc", T, c=False, lua=False, py=False)], ["int", "double"]),
        })
    return rows


def result_rows(lang):
    """name -> (ctype template, attrs, T pool, py, lua)"""
    rows = {
        "Rvoid": ("void", "", [None], True, True),
        "RN": ("{T}", "", NATIVES, True, True),       # "Numeric Functions"
        "RB": ("bool", "", [None], True, True),
        "RC": ("char", "", [None], True, False),      # strings.yaml returnChar
        "RS1": ("const char *", "", [None], True, False),   # getCharPtr1 (wrap_lua: False in strings.yaml)
        "RS1len": ("const char *", "+len(30)", [None], True, False),  # getCharPtr2
        "RNptrdim": ("{T} *", "+dimension(3)", ARRAY_T, False, False),  # returnIntPtrToFixedArray
        "RNptrscalar": ("{T} *", "+deref(scalar)", ARRAY_T, True, False),  # returnIntScalar
    }
    if lang == "c++":
        rows.update({
            "RS3": ("const std::string", "", [None], True, True),       # getConstStringAlloc
            "RS3ref": ("const std::string &", "", [None], True, True),  # getConstStringRefAlloc
            "RS3len": ("const std::string &", "+len(30)", [None], True, True),  # LastFunctionCalled
            "RV": ("std::vector<int>", "", [None], False, False),        # ReturnVectorAlloc
        })
    return rows


# ---------------------------------------------------------------------------
# Hypothesis strategies

@st.composite
def function(draw, lang, names, prefix="fn", cls=None, allow=None, max_params=3, result=None):
    prow = param_rows(lang)
    rrow = result_rows(lang)
    keys = sorted(prow) if allow is None else [k for k in sorted(prow) if k in allow]
    nparam = draw(st.integers(0, max_params))
    params = []
    for i in range(nparam):
        k = draw(st.sampled_from(keys))
        build, pool = prow[k]
        T = draw(st.sampled_from(pool))
        params.extend(build(T, "a%d" % i))
    rk = result if result else draw(st.sampled_from(sorted(rrow)))
    if rk in ("RNptrscalar", "RNptrdim") and any(p["row"] not in ("N1", "B1") for p in params):
        # corpus uses pointer results with attributes only on functions whose arguments
        # need no buffer variant (pointers.yaml returnIntScalar(void)); with a bufferified
        # argument Shroud stops with "Error with template" (recorded as an observation in
        # DESIGN.md, outside the admitted grammar)
        rk = "RN"
    tmpl, rattrs, pool, rpy, rlua = rrow[rk]
    T = draw(st.sampled_from(pool))
    rtype = tmpl.format(T=T)
    name = names.fresh(draw(st.sampled_from(_SNAKE + _WORDS)) if prefix is None else prefix)
    if rk in ("RS3ref", "RS3len") and any(p["row"] in ("B1out", "B1inout", "N3in", "N3inout", "N3out", "V1in", "V1out")
                                           for p in params):
        # recorded known finding (C03): a reference result in a Python wrapper that needs a cleanup label
        rpy = False
    f = dict(kind="func", name=name, rtype=rtype, rattrs=rattrs, rrow=rk, rT=T, params=params,
             py=rpy and all(p["py"] for p in params), lua=rlua and all(p["lua"] for p in params),
             const=False, static=False, options={}, format={}, extra={})
    if cls is not None:
        f["const"] = draw(st.booleans()) and draw(st.booleans())
        f["static"] = (not f["const"]) and draw(st.integers(0, 5)) == 0
    return f


def decl_text(f, with_attrs=True):
    ps = []
    for p in f["params"]:
        s = p["ctype"]
        if with_attrs and p["attrs"]:
            s += " " + p["attrs"]
        if p.get("default") is not None:
            s += " = " + p["default"]
        ps.append(s)
    s = "%s %s(%s)" % (f["rtype"], f["name"], ", ".join(ps)) if f.get("rtype") is not None \
        else "%s(%s)" % (f["name"], ", ".join(ps))
    if f.get("static"):
        s = "static " + s
    if f.get("const"):
        s += " const"
    if with_attrs and f.get("rattrs"):
        s += " " + f["rattrs"]
    return s


@st.composite
def enum_decl(draw, names, scoped_ok=True):
    name = names.fresh("Color")
    n = draw(st.integers(1, 4))
    members = []
    for i in range(n):
        mname = "%s_M%d" % (name.upper(), i)
        val = draw(st.one_of(st.none(), st.integers(-5, 40)))
        members.append((mname, val))
    scoped = scoped_ok and draw(st.integers(0, 3)) == 0
    return dict(kind="enum", name=name, members=members, scoped=scoped)


def enum_text(e):
    body = ", ".join(m if v is None else "%s = %d" % (m, v) for m, v in e["members"])
    return "enum %s%s { %s };" % ("class " if e["scoped"] else "", e["name"], body)


@st.composite
def struct_decl(draw, names):
    name = names.fresh("Cstruct")
    n = draw(st.integers(1, 4))
    fields = []
    for i in range(n):
        T = draw(st.sampled_from(["int", "double", "long", "float"]))
        fields.append((T, "f%d" % i))
    return dict(kind="struct", name=name, fields=fields)


def struct_text(s):
    return "struct %s { %s };" % (s["name"], " ".join("%s %s;" % f for f in s["fields"]))


@st.composite
def class_decl(draw, lang, names, enum_types=(), force_member=None):
    name = names.fresh(draw(st.sampled_from(_WORDS)))
    cnames = Names()
    ctors = []
    nctor = draw(st.integers(0, 2))
    for i in range(nctor):
        ps = [] if i == 0 else [P("flag", "int flag", "", "N1", "int")]
        ctors.append(dict(kind="ctor", name=name, rtype=None, params=ps, rattrs="", py=True, lua=True,
                          options={}, format=dict(function_suffix="_c%d" % i) if nctor > 1 else {},
                          extra={}))
    dtor = draw(st.booleans())
    methods = []
    for i in range(draw(st.integers(0, 3))):
        methods.append(draw(function(lang, cnames, prefix=draw(st.sampled_from(["method", "getVal", "do_it"])),
                                     cls=name, max_params=2)))
    # reference.rst return_this / classes.yaml returnThis: a method returning 'this' for chaining in C++; the C and
    # Fortran wrappers come from a generated clone without result (Python / Lua off as in classes.yaml)
    if draw(st.integers(0, 2)) == 0:
        ps = [P("step", "int step", "", "N1", "int")] if draw(st.booleans()) else []
        # (switched off for Python through options of its own as in classes.yaml, or left on; a class pointer result
        #  is outside the Lua subset - classes.yaml switches Lua off for every one of them)
        both = draw(st.booleans())
        methods.append(dict(kind="func", name=cnames.fresh("chain"), rtype="%s *" % name, rattrs="", rrow="Rthis", rT=None,
                            params=ps, py=both, lua=False, const=False, static=False, options={}, format={},
                            extra={"return_this": True}))
    # classes.rst "Member Variables": public data members get getter / setter functions (only a getter with +readonly)
    members = []
    if force_member:
        members.append(dict(name="m_%s" % cnames.fresh("kind"), T=force_member, readonly=False))
    for i in range(draw(st.sampled_from([0, 0, 1, 2]))):
        T = draw(st.sampled_from(["int", "double", "long"] + list(enum_types)))
        members.append(dict(name="m_%s%d" % (cnames.fresh("v"), i), T=T, readonly=draw(st.integers(0, 3)) == 0))
    return dict(kind="class", name=name, ctors=ctors, dtor=dtor, methods=methods, members=members,
                options={}, format={})


@st.composite
def library(draw, lang=None, max_decls=8, with_python=None, with_lua=None, features=None, must=None):
    """features: subset of {'class','enum','struct','namespace','overload','default',
    'template','generic'} or None for all admitted ones."""
    if lang is None and must and must not in ("enum", "struct", "generic"):
        lang = "c++"            # (the required kind of declaration exists in C++ libraries only)
    lang = lang or draw(st.sampled_from(["c++", "c++", "c"]))
    feats = features if features is not None else (
        {"class", "enum", "struct", "namespace", "overload", "default", "template", "generic"}
        if lang == "c++" else {"enum", "struct", "generic"})
    names = Names()
    # (different library names give different C prefixes: state kept between libraries in one process shows)
    lib = dict(library=names.fresh(draw(st.sampled_from(["Lib", "Lib", "Geom", "Tools", "alpha", "Mesh"]))), language=lang,
               options={}, format={}, decls=[])
    wp = draw(st.booleans()) if with_python is None else with_python
    wl = (draw(st.booleans()) if with_lua is None else with_lua) and lang == "c++"
    lib["options"]["wrap_python"] = wp
    lib["options"]["wrap_lua"] = wl
    if wp:
        lib["options"]["PY_array_arg"] = "list"
    if lang == "c++" and draw(st.booleans()):
        lib["namespace"] = "ns" + lib["library"].lower()
    n = draw(st.integers(2, max_decls))
    must_pos = draw(st.integers(0, n - 1)) if must else -1
    for i in range(n):
        kinds = ["func", "func", "func"]
        for k in ("class", "enum", "struct", "namespace", "overload", "default", "template", "generic"):
            if k in feats:
                kinds.append(k)
        if "class" in feats and not any(d["kind"] == "classpair" for d in lib["decls"]):
            kinds.append("classpair")
        if "class" in feats and "template" in feats:
            kinds.append("ctemplate")
        if "class" in feats:
            kinds.append("derived")
        k = draw(st.sampled_from(kinds))
        if i == must_pos and must == "enummember" and "class" in kinds and "enum" in kinds:
            # a class with a writable data member of an enumeration type declared before it
            e = draw(enum_decl(names, scoped_ok=False))
            lib["decls"].append(e)
            lib["decls"].append(draw(class_decl(lang, names, [e["name"]], force_member=e["name"])))
            continue
        if i == must_pos and must == "nsenum" and "namespace" in kinds and "enum" in kinds:
            # namespaces.rst / namespace.yaml: a namespace that holds nothing but an enumeration (its C header has
            # content, its C implementation file has none)
            lib["decls"].append(dict(kind="namespace", name=names.fresh("space"),
                                     decls=[draw(enum_decl(names, scoped_ok=(lang == "c++" and not wp)))]))
            continue
        if i == must_pos and (must in kinds or (must == "deepns" and "namespace" in kinds)):
            k = must            # stratified sampling: this library carries the required kind of declaration
        force_deep = k == "deepns"
        if force_deep:
            k = "namespace"
        if k == "func":
            lib["decls"].append(draw(function(lang, names, prefix=None)))
        elif k == "class":
            enums_so_far = [d["name"] for d in lib["decls"] if d["kind"] == "enum" and not d.get("scoped")]
            lib["decls"].append(draw(class_decl(lang, names, enums_so_far, force_member=("int" if i == must_pos else None))))
        elif k == "derived":
            # struct.rst "Inheritance ... Only single inheritance is supported" / classes.yaml Shape, Circle: a base class
            # with a constructor and a method, a derived class with a constructor and possibly methods of its own
            base = draw(class_decl(lang, names))
            if not base["ctors"]:
                base["ctors"].append(dict(kind="ctor", name=base["name"], rtype=None, params=[], rattrs="", py=True, lua=True,
                                          options={}, format={}, extra={}))
            base["ctors"] = base["ctors"][:1]
            base["ctors"][0]["format"] = {}
            der = draw(class_decl(lang, names))
            der["ctors"] = [dict(kind="ctor", name=der["name"], rtype=None, params=[], rattrs="", py=True, lua=True,
                                 options={}, format={}, extra={})]
            der["members"] = []
            if draw(st.booleans()):
                der["methods"] = []          # classes.yaml Circle: constructors only
            der["methods"] = [m_ for m_ in der["methods"] if not (m_.get("extra") or {}).get("return_this")]
            # (a method of the derived class that hides a base method of another signature cannot become a Fortran
            #  type-bound procedure of the extended type: the names are kept apart)
            for m_ in der["methods"]:
                m_["name"] = m_["name"] + "d"
            der["base"] = base["name"]
            lib["decls"].append(base)
            lib["decls"].append(der)
        elif k == "ctemplate":
            # templates.rst / templates.yaml: a class template with its instantiations
            insts = draw(st.lists(st.sampled_from(["int", "double", "long"]), min_size=1, max_size=2, unique=True))
            lib["decls"].append(dict(kind="ctemplate", name=names.fresh("Holder"), insts=insts,
                                     with_name=draw(st.booleans())))
        elif k == "classpair":
            # struct.rst "Forward Declaration": two classes whose methods take each other
            a, b = names.fresh("Node"), names.fresh("Edge")
            how = draw(st.sampled_from(["&", "*"]))
            lib["decls"].append(dict(kind="classpair", a=a, b=b, how=how))
        elif k == "enum":
            # (scoped enumerations are not used with the Python wrapper in docs or corpus)
            lib["decls"].append(draw(enum_decl(names, scoped_ok=(lang == "c++" and not wp))))
        elif k == "struct":
            lib["decls"].append(draw(struct_decl(names)))
        elif k == "namespace":
            ns = dict(kind="namespace", name=names.fresh("space"), decls=[])
            for j in range(draw(st.integers(1, 2))):
                ns["decls"].append(draw(function(lang, names, prefix=None, max_params=2)))
            # namespaces.rst: namespaces nest to any depth
            cur = ns
            for _d in range(draw(st.sampled_from([0, 0, 1, 2])) if not force_deep else draw(st.sampled_from([1, 2]))):
                inner = dict(kind="namespace", name=names.fresh("inner"), decls=[])
                for j in range(draw(st.integers(1, 2))):
                    inner["decls"].append(draw(function(lang, names, prefix=None, max_params=2)))
                cur["decls"].append(inner)
                cur = inner
            lib["decls"].append(ns)
        elif k == "overload":
            # tutorial.rst "Overloaded Functions": distinguishable by Fortran type/kind/rank
            base = names.fresh("Overload")
            sigs = draw(st.lists(st.sampled_from(["int", "double", "string", "none", "int,int"]),
                                 min_size=2, max_size=3, unique=True))
            # output.rst "C Preprocessor": members of an overload set under conditional compilation
            cond = draw(st.sampled_from([None, ["ifdef VF_HAVE_A", "ifndef VF_HAVE_A", None],
                                         ["ifdef VF_HAVE_A", None, "ifdef VF_HAVE_B"]]))
            for isg, sg in enumerate(sigs):
                ps = []
                for j, t in enumerate([x for x in sg.split(",") if x != "none"]):
                    if t == "string":
                        ps.append(P("a%d" % j, "const std::string &a%d" % j, "", "S3in", "string", c=False))
                    else:
                        ps.append(P("a%d" % j, "%s a%d" % (t, j), "", "N1", t))
                lib["decls"].append(dict(kind="func", name=base, rtype="void", rattrs="", rrow="Rvoid", rT=None,
                                         params=ps, py=True, lua=True, const=False, static=False,
                                         options={}, format={},
                                         extra=({"cpp_if": cond[isg]} if cond and cond[isg] else {}), overload=True))
        elif k == "default":
            # tutorial.rst "Optional Arguments"
            f = draw(function(lang, names, prefix="Defaulted", allow={"N1"}, max_params=1, result="RN"))
            nd = draw(st.integers(1, 2))
            for j in range(nd):
                T = draw(st.sampled_from(["int", "double", "bool"]))
                dv = {"int": "3", "double": "1.5", "bool": "true"}[T]
                f["params"].append(P("d%d" % j, "%s d%d" % (T, j), "", "N1" if T != "bool" else "B1", T,
                                     default=dv))
            lib["decls"].append(f)
        elif k == "template":
            # templates.rst; tutorial.yaml TemplateArgument
            name = names.fresh("Templated")
            insts = draw(st.lists(st.sampled_from(["int", "double", "long", "float"]), min_size=1,
                                  max_size=2, unique=True))
            # shapes: the tutorial's one (templated argument only), an ordinary argument next to the templated
            # one, a templated result (templates.yaml ReturnType), a templated pointer result, two type
            # parameters with the result named after the second (templates.yaml: template<T,U> FunctionTU)
            shape = draw(st.sampled_from(["arg", "arg+plain", "result", "ptr-result", "two"]))
            tf = dict(kind="func", name=name, rtype="void", rattrs="", rrow="Rvoid", rT=None,
                      params=[P("arg", "ArgType arg", "", "N1", "ArgType")],
                      template="template<typename ArgType>", insts=insts,
                      py=True, lua=True, const=False, static=False, options={}, format={}, extra={}, tshape=shape)
            if shape == "arg+plain":
                tf["params"].append(P("slot", "int slot", "", "N1", "int"))
                if draw(st.booleans()):
                    tf["params"].insert(0, P("lead", "double lead", "", "N1", "double"))
            elif shape == "result":
                tf.update(rtype="ArgType", rrow="RN", rT="ArgType", params=[P("slot", "int slot", "", "N1", "int")])
            elif shape == "ptr-result":
                # a pointer result of an instantiation gets the same default treatment as any pointer result
                tf.update(rtype="ArgType *", rrow="RP", rT="ArgType", params=[P("slot", "int slot", "", "N1", "int")],
                          py=False, lua=False)
            elif shape == "two":
                pairs = draw(st.lists(st.sampled_from(["int, double", "double, int", "long, float", "float, double", "int, long"]),
                                      min_size=1, max_size=2, unique=True))
                tf.update(template="template<typename T, typename U>", insts=pairs, rtype="U", rrow="RN", rT="U",
                          params=[P("arg1", "T arg1", "", "N1", "T"), P("arg2", "U arg2", "", "N1", "U")])
            lib["decls"].append(tf)
        elif k == "generic":
            # fortran.rst / generic.yaml GenericReal
            name = names.fresh("Generic")
            if draw(st.booleans()):
                # generic.yaml AssignValues / SavePointer: array argument restated per variant, the size
                # argument (with its implied attribute) taken over from the declaration
                lib["decls"].append(dict(kind="func", name=name, rtype="void", rattrs="", rrow="Rvoid", rT=None,
                                         params=[P("arg", "const double *arg", "+rank(1)", "N3in", "double", lua=False),
                                                 P("narg", "int narg", "+implied(size(arg))", "N1", "int")],
                                         generic=["(const float *arg +rank(1))", "(const double *arg +rank(1))"],
                                         py=False, lua=False, const=False, static=False,
                                         options={}, format={}, extra={}))
                continue
            lib["decls"].append(dict(kind="func", name=name, rtype="void", rattrs="", rrow="Rvoid", rT=None,
                                     params=[P("arg", "double arg", "", "N1", "double")],
                                     generic=["(float arg)", "(double arg)"],
                                     py=True, lua=True, const=False, static=False,
                                     options={}, format={}, extra={}))
    return lib


# ---------------------------------------------------------------------------
# projections

def _func_yaml(f, lib):
    d = {"decl": decl_text(f)}
    if f.get("template"):
        d["decl"] = f["template"] + " " + d["decl"]
        d["cxx_template"] = [{"instantiation": "<%s>" % t} for t in f["insts"]]
    if f.get("generic"):
        d["fortran_generic"] = [{"decl": g} for g in f["generic"]]
    opts = dict(f.get("options") or {})
    if lib["options"].get("wrap_python") and not f.get("py", True):
        opts["wrap_python"] = False
    if lib["options"].get("wrap_lua") and not f.get("lua", True):
        opts["wrap_lua"] = False
    if opts:
        d["options"] = opts
    if f.get("format"):
        d["format"] = dict(f["format"])
    for k, v in (f.get("extra") or {}).items():
        d[k] = v
    return d


def _pair_arg(cls, how, name, attrs):
    # forward.yaml: 'Class3 *arg +intent(in)'; classes.yaml: 'const Class1 &'
    if how == "*":
        return "%s *%s%s" % (cls, name, " +intent(in)" if attrs else "")
    return "const %s &%s" % (cls, name)


def _decl_yaml(node, lib):
    k = node["kind"]
    if k in ("func", "ctor"):
        return _func_yaml(node, lib)
    if k == "enum":
        d = {"decl": enum_text(node)}
        if node.get("scoped") and lib["options"].get("wrap_python"):
            # scoped enumerations are not used with the Python wrapper anywhere in docs or corpus
            # (scope.yaml keeps wrap_python off): not an admitted pattern for Python
            node = dict(node, options=dict(node.get("options") or {}, wrap_python=False))
    elif k == "struct":
        d = {"decl": struct_text(node)}
    elif k == "class":
        inner = []
        for c in node["ctors"]:
            inner.append(_func_yaml(c, lib))
        if node["dtor"]:
            inner.append({"decl": "~%s()" % node["name"], "format": {"function_suffix": "_dtor"}}
                         if False else {"decl": "~%s() +name(delete)" % node["name"]})
        for v in node.get("members", []):
            inner.append({"decl": "%s %s%s" % (v["T"], v["name"], " +readonly" if v["readonly"] else "")})
        for m in node["methods"]:
            inner.append(_func_yaml(m, lib))
        for e in node.get("inner", []):
            inner.append(_decl_yaml(e, lib))
        d = {"decl": "class " + node["name"] + ((" : public " + node["base"]) if node.get("base") else "")}
        if inner:
            d["declarations"] = inner
    elif k == "namespace":
        d = {"decl": "namespace " + node["name"],
             "declarations": [_decl_yaml(x, lib) for x in node["decls"]]}
    elif k == "block":
        d = {"block": True, "declarations": [_decl_yaml(x, lib) for x in node["decls"]]}
    elif k == "ctemplate":
        nm = node["name"]
        inner = [{"decl": "%s()" % nm}, {"decl": "void setValue(T v)"}, {"decl": "T getValue()"}]
        if node["with_name"]:
            inner += [{"decl": "void setName(const std::string &name)"}, {"decl": "const std::string &getName() const"}]
        return {"decl": "template<typename T> class " + nm,
                "cxx_template": [{"instantiation": "<%s>" % t} for t in node["insts"]],
                "declarations": inner, "options": {"wrap_python": False, "wrap_lua": False}}
    elif k == "classpair":
        a, b, how = node["a"], node["b"], node["how"]
        nolua = {"options": {"wrap_lua": False}} if lib["options"].get("wrap_lua") else {}
        return [{"decl": "class " + a},
                {"decl": "class " + b, "declarations": [{"decl": "%s()" % b},
                                                         dict({"decl": "void accept%s(%s)" % (a, _pair_arg(a, how, "arg1", True))}, **nolua)]},
                {"decl": "class " + a, "declarations": [{"decl": "%s()" % a},
                                                         dict({"decl": "void accept%s(%s)" % (b, _pair_arg(b, how, "arg2", True))}, **nolua)]}]
    elif k == "raw":
        d = dict(node["yaml"])
        return d
    else:
        raise ValueError(k)
    if node.get("options"):
        d["options"] = dict(node["options"])
    if node.get("format"):
        d["format"] = dict(node["format"])
    return d


def to_yaml_dict(lib):
    d = {"library": lib["library"], "language": lib["language"],
         "cxx_header": lib["library"].lower() + (".hpp" if lib["language"] == "c++" else ".h")}
    if lib.get("namespace"):
        d["namespace"] = lib["namespace"]
    if lib.get("options"):
        d["options"] = dict(lib["options"])
    if lib.get("format"):
        d["format"] = dict(lib["format"])
    for k in ("splicer", "splicer_code"):
        if lib.get(k):
            d[k] = lib[k]
    d["declarations"] = []
    for x in lib["decls"]:
        y = _decl_yaml(x, lib)
        d["declarations"] += y if isinstance(y, list) else [y]
    return d


def to_yaml(lib):
    return yaml.safe_dump(to_yaml_dict(lib), sort_keys=False, width=1000, default_flow_style=False)


def walk_functions(lib):
    """Yield (path tuple, func node) for every function-like node."""
    def rec(decls, path):
        for i, n in enumerate(decls):
            if n["kind"] in ("func",):
                yield path + (i,), n
            elif n["kind"] == "class":
                for j, c in enumerate(n["ctors"]):
                    yield path + (i, "ctor", j), c
                for j, m in enumerate(n["methods"]):
                    yield path + (i, "m", j), m
            elif n["kind"] in ("namespace", "block"):
                for x in rec(n["decls"], path + (i,)):
                    yield x
    return rec(lib["decls"], ())


# ---------------------------------------------------------------------------
# deterministic sampling through Hypothesis (generator only)

def sample(strategy, seed_value, n):
    """Draw up to n examples from a strategy with a fixed seed (Hypothesis used
    purely as generator: generate phase only)."""
    from hypothesis import given, seed, settings, Phase, HealthCheck
    import json
    out = []
    seen = set()

    # (the generate phase repeats examples; duplicates are dropped and up to 3n draws are made)
    @seed(seed_value)
    @settings(max_examples=3 * n, database=None, deadline=None, phases=[Phase.generate],
              suppress_health_check=list(HealthCheck), derandomize=False)
    @given(strategy)
    def collect(x):
        if len(out) >= n:
            return
        try:
            key = json.dumps(x, sort_keys=True, default=repr)
        except Exception:
            key = repr(x)
        if key in seen:
            return
        seen.add(key)
        out.append(x)
    collect()
    return out[:n]


STRATA = [None, "class", "namespace", "deepns", "overload", "default", "template", "generic", "enum", "struct", "classpair",
          "ctemplate", "enummember", "derived", "nsenum"]


def sample_models(seed_value, n, **kw):
    """n library models, stratified: the Hypothesis generate phase alone leaves whole kinds of declaration
    out of a few dozen draws, so the libraries are drawn in groups, each group required to contain one kind
    (None = no requirement), and interleaved."""
    per = (n + len(STRATA) - 1) // len(STRATA)
    groups = [sample(library(must=k, **kw), seed_value * 101 + j, per) for j, k in enumerate(STRATA)]
    res = []
    for i in range(per):
        for g in groups:
            if i < len(g):
                res.append(g[i])
    return res[:n]


def sample_libraries(seed_value, n, **kw):
    return [(lib["library"], to_yaml(lib)) for lib in sample_models(seed_value, n, **kw)]


# ---------------------------------------------------------------------------
# header of a model: the declarations with the Shroud attributes removed

def header(lib):
    cxx = lib["language"] == "c++"
    out = ["#ifndef VF_SG_H", "#define VF_SG_H", "#include <stddef.h>", "#include <stdint.h>"]
    out += ["#include <string>", "#include <vector>"] if cxx else ["#include <stdbool.h>"]

    def func_proto(f):
        s = decl_text(f, with_attrs=False)
        if f.get("template"):
            s = f["template"] + " " + s
        return s + ";"

    def emit(nodes, indent):
        for n in nodes:
            k = n["kind"]
            if k == "func":
                out.append(indent + func_proto(n))
            elif k == "enum":
                out.append(indent + enum_text(n))
            elif k == "struct":
                out.append(indent + struct_text(n))
            elif k == "class":
                out.append(indent + "class %s%s {\n%spublic:" % (n["name"], (" : public " + n["base"]) if n.get("base") else "", indent))
                for c in n["ctors"]:
                    out.append(indent + "    %s(%s);" % (n["name"], ", ".join(
                        p["ctype"] + ((" = " + p["default"]) if p.get("default") is not None else "") for p in c["params"])))
                if n["dtor"]:
                    out.append(indent + "    ~%s();" % n["name"])
                for v in n.get("members", []):
                    out.append(indent + "    %s %s;" % (v["T"], v["name"]))
                for m in n["methods"]:
                    out.append(indent + "    " + func_proto(m))
                out.append(indent + "};")
            elif k == "ctemplate":
                body = "%s(); void setValue(T v); T getValue();" % n["name"]
                if n["with_name"]:
                    body += " void setName(const std::string &name); const std::string &getName() const;"
                out.append(indent + "template<typename T> class %s { public: %s };" % (n["name"], body))
            elif k == "classpair":
                a, b, how = n["a"], n["b"], n["how"]
                out.append(indent + "class %s;" % a)
                out.append(indent + "class %s { public: %s(); void accept%s(%s); };" % (b, b, a, _pair_arg(a, how, "arg1", False)))
                out.append(indent + "class %s { public: %s(); void accept%s(%s); };" % (a, a, b, _pair_arg(b, how, "arg2", False)))
            elif k == "namespace":
                out.append(indent + "namespace %s {" % n["name"])
                emit(n["decls"], indent + "  ")
                out.append(indent + "}")
            elif k == "block":
                emit(n["decls"], indent)
    if lib.get("raw_header"):
        out.append(lib["raw_header"])
    if lib.get("namespace"):
        out.append("namespace %s {" % lib["namespace"])
    emit(lib["decls"], "")
    if lib.get("namespace"):
        out.append("}")
    out.append("#endif")
    return "\n".join(out) + "\n"
