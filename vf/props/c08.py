"""C08 - every callable C++ signature gets exactly one, distinct wrapper name.

Generator: a description made of *groups* (one C++ name in one scope):
overload sets (1-3 overloads, one of them possibly with 1-2 trailing default
arguments, explicit or defaulted function_suffix / default_arg_suffix),
function templates (1-2 instantiations, explicit or defaulted template_suffix),
fortran_generic functions (2 variants, explicit or defaulted suffix, optional
default argument), at library / namespace / nested namespace / class scope.
Names come from a pool whose underscore forms are pairwise distinct and
prefix-free.

Reference model (from the input alone): the number of callable signatures of
each group, the documented name stem  prefix + scope + underscore(name)  and the
set of suffixes the user supplied.  Read from the outputs: C prototypes in the
generated headers, Fortran module procedures / interface bodies / generic
interfaces / type-bound generics, PyMethodDef and luaL_Reg tables.
"""
import itertools
import re

import yaml
from hypothesis import strategies as st

from .. import core, lex, shroud_run, smallgen

LEVEL = "exploration"

# pool: underscore forms pairwise distinct and prefix-free at '_' boundaries
POOL = ["ovAlpha", "dfBeta", "tmGamma", "gnDelta", "FuncName", "get_value", "Compute", "applyOp",
        "fetchIt", "storeX", "Update2", "queryAll", "resetNow", "scaleBy", "lookupKey", "mergeIn"]

FIRST_TYPES = ["int", "double", "const std::string &", "long", "bool"]
TYPE_SUFFIX = ["int", "double", "long", "float", "dbl", "flt"]


def un_camel(text):
    """Documented in util.un_camel's docstring (CamelCase -> camel_case); re-implemented."""
    out = []
    for i, ch in enumerate(text):
        if ch.isupper():
            if (i - 1 > 0 and text[i - 1].islower()) or (i - 1 > 0 and i + 1 < len(text) and text[i + 1].islower()):
                out.append("_" + ch.lower())
            else:
                out.append(ch.lower())
        else:
            out.append(ch)
    return "".join(out)


assert len(set(un_camel(n).lower() for n in POOL)) == len(POOL)
for _a, _b in itertools.permutations([un_camel(n).lower() for n in POOL], 2):
    assert not _b.startswith(_a + "_") and not _b.startswith(_a), (_a, _b)


@st.composite
def group(draw, name, in_class=False):
    kind = draw(st.sampled_from(["overload", "overload", "overload", "template", "generic", "ctemplate"] if not in_class
                                else ["overload"]))
    g = dict(name=name, kind=kind, decls=[], nsig=0, ngeneric=1, supplied=[], has_default=False)
    if kind == "overload":
        nov = draw(st.integers(1, 3))
        firsts = draw(st.lists(st.sampled_from(FIRST_TYPES), min_size=nov, max_size=nov, unique=True))
        idef = draw(st.integers(-1, nov - 1))  # which overload carries defaults (-1: none)
        for i in range(nov):
            d = {"decl": None}
            params = ["%s a" % firsts[i]]
            nd = 0
            if i == idef:
                nd = draw(st.integers(1, 2))
                for k in range(nd):
                    params.append("int d%d = %d" % (k, k))        # (the first default value is 0)
                g["has_default"] = True
                if draw(st.booleans()):
                    # a complete list (one entry per arity), a partial list (the remaining arities get the
                    # default numbering: generate.has_default_args handles the IndexError) or one entry too many
                    nlist = draw(st.sampled_from([nd + 1, nd + 1, nd, 1, nd + 2]))
                    sufs = ["_n%d%s" % (k, draw(st.sampled_from(["", "x", "args"]))) for k in range(nlist)]
                    d["default_arg_suffix"] = sufs
                    g["supplied"] += sufs[:nd + 1]
            elif draw(st.integers(0, 2)) == 0:
                s = "_" + draw(st.sampled_from(["from_a", "alt", "x"])) + str(i)
                d["format"] = {"function_suffix": s}
                g["supplied"].append(s)
            d["decl"] = "void %s(%s)" % (name, ", ".join(params))
            g["decls"].append(d)
            g["nsig"] += 1 + nd
    elif kind == "ctemplate":
        # templates.rst: a class template with its instantiations; every instantiation is a class of its own
        # (C_name_scope <Class>_<type>_), in whatever namespace the template is declared
        insts = draw(st.lists(st.sampled_from(["int", "double", "long"]), min_size=1, max_size=2, unique=True))
        g["cls"] = "Stack" + name[:3].capitalize()
        g["insts"] = insts
        g["decls"].append({"decl": "template<typename T> class " + g["cls"],
                           "cxx_template": [{"instantiation": "<%s>" % t} for t in insts],
                           "declarations": [{"decl": "void %s(T v)" % name}]})
        g["nsig"] = len(insts)
    elif kind == "template":
        insts = draw(st.lists(st.sampled_from(["int", "double", "long", "float"]), min_size=1, max_size=2, unique=True))
        lst = []
        for t in insts:
            e = {"instantiation": "<%s>" % t}
            if draw(st.integers(0, 2)) == 0:
                s = "_" + draw(st.sampled_from(["dbl", "flt", "t1", "kind8"])) + t[0]
                e["format"] = {"template_suffix": s}
                g["supplied"].append(s)
            lst.append(e)
        g["decls"].append({"decl": "template<typename T> void %s(T arg)" % name, "cxx_template": lst})
        g["nsig"] = len(insts)
    else:
        nd = draw(st.integers(0, 1))
        # fortran.rst "Scalar and Array Arguments": the variants may change the rank instead of the type; Shroud
        # then writes one more C entry point per signature for the array form
        rankchange = draw(st.booleans())
        params = ["double arg" if not rankchange else "int *arg"] + ["int d0 = 1"][:nd]
        gl = []
        for t in (("float", "double") if not rankchange else ("int *", "int *RANK")):
            e = {"decl": "(%s arg)" % t} if not rankchange else {"decl": "(int *arg%s)" % ("+rank(1)" if "RANK" in t else "")}
            if draw(st.integers(0, 2)) == 0:
                s = "_" + draw(st.sampled_from(["f", "r4", "real", "g"])) + (t[0] if not rankchange else ("a" if "RANK" in t else "s"))
                e["function_suffix"] = s
                g["supplied"].append(s)
            gl.append(e)
        g["decls"].append({"decl": "void %s(%s)" % (name, ", ".join(params)), "fortran_generic": gl})
        g["nsig"] = 1 + nd
        g["ngeneric"] = 2
        g["cextra"] = 1 if rankchange else 0
        g["has_default"] = bool(nd)
    return g


@st.composite
def description(draw):
    names = list(draw(st.permutations(POOL)))
    lib = dict(library=draw(st.sampled_from(["NameLib", "Xyz", "wrapped"])), groups=[])
    ngroups = draw(st.integers(1, 5))
    for i in range(ngroups):
        scope = draw(st.sampled_from([[], [], ["outer"], ["outer", "inner"], ["Class1"], ["space2"]]))
        in_class = scope == ["Class1"]
        g = draw(group(names.pop(), in_class=in_class))
        g["scope"] = scope
        lib["groups"].append(g)
    # same C++ name in two namespaces (legal C++, distinct scopes)
    lib["python"] = draw(st.booleans())
    lib["lua"] = draw(st.booleans())
    # declaration order inside a scope: group by group, or interleaved so that the members of an
    # overload set are separated by other declarations
    lib["spread"] = draw(st.booleans())
    # reference.rst F_flatten_namespace: the namespaces' Fortran entities go into the library module, their
    # names prefixed with the namespace names
    lib["flatten"] = draw(st.integers(0, 3)) == 0
    return lib


def to_yaml(lib):
    top = []
    scopes = {}
    for g in lib["groups"]:
        cur = top
        path = ()
        for s in g["scope"]:
            path += (s,)
            if path not in scopes:
                node = {"decl": ("class " if s == "Class1" else "namespace ") + s, "declarations": []}
                cur.append(node)
                scopes[path] = node["declarations"]
            cur = scopes[path]
        for k, d in enumerate(g["decls"]):
            d = dict(d)
            d["__rank"] = k
            cur.append(d)

    def reorder(decls):
        if lib.get("spread"):
            decls.sort(key=lambda d: d.get("__rank", -1))       # stable: round-robin over the groups
        for d in decls:
            d.pop("__rank", None)
            if "declarations" in d:
                reorder(d["declarations"])
    reorder(top)
    doc = {"library": lib["library"], "cxx_header": "names.hpp",
           "options": dict({"wrap_python": lib["python"], "wrap_lua": lib["lua"], "debug": False},
                           **({"F_flatten_namespace": True} if lib.get("flatten") else {})),
           "declarations": top}
    return yaml.safe_dump(doc, sort_keys=False, width=1000)


# ---------------------------------------------------------------------------
# reading names from the outputs

def c_prototypes(files, prefix):
    """Names of functions declared in generated C headers (list, duplicates kept)."""
    names = []
    for fn in sorted(files):
        if not (fn.startswith("wrap") and fn.endswith((".h", ".hpp"))):
            continue
        toks = lex.c_tokens(files[fn].decode("utf-8", "replace"))
        for i, t in enumerate(toks[:-1]):
            if toks[i + 1] == "(" and t.startswith(prefix) and re.match(r"^[A-Za-z_]\w*$", t) and (i == 0 or toks[i - 1] not in ("#", "define")):
                names.append(t)
    return names


def fortran_entities(files):
    """-> per module file: dict(procs=[...], iface_bodies=[...], generics={name: [procs]},
    tb_generics={name: [...]}, tb_procs={binding: impl})"""
    res = {}
    for fn in sorted(files):
        if lex.file_kind(fn) != "f":
            continue
        ent = dict(procs=[], iface_bodies=[], generics={}, tb_generics={}, tb_procs={})
        depth = 0
        cur_generic = None
        in_type = False
        for st_ in lex.f_statements(files[fn].decode("utf-8", "replace")):
            if st_[0] == "interface" or (st_[0] == "abstract" and len(st_) > 1 and st_[1] == "interface"):
                depth += 1
                cur_generic = None
                if st_[0] == "interface" and len(st_) >= 2 and re.match(r"^[a-z_]\w*$", st_[1]) and st_[1] != "operator":
                    cur_generic = st_[1]
                    ent["generics"].setdefault(cur_generic, [])
                continue
            if st_[0] == "end" and len(st_) > 1 and st_[1] == "interface":
                depth -= 1
                cur_generic = None
                continue
            if st_[0] == "type" and ("::" in st_ or (len(st_) == 2)) and "(" not in st_[:2]:
                in_type = True
                continue
            if st_[0] == "end" and len(st_) > 1 and st_[1] == "type":
                in_type = False
                continue
            if in_type:
                if st_[0] == "generic" and "=>" in st_:
                    i = st_.index("=>")
                    name = st_[i - 1]
                    ent["tb_generics"][name] = [t for t in st_[i + 1:] if t != ","]
                elif st_[0] == "procedure" and "=>" in st_:
                    i = st_.index("=>")
                    ent["tb_procs"][st_[i - 1]] = st_[i + 1]
                continue
            if depth > 0:
                if cur_generic is not None and st_[0] == "module" and st_[1] == "procedure":
                    ent["generics"][cur_generic] += [t for t in st_[2:] if t not in (",", "::")]
                    continue
                for i, t in enumerate(st_[:-1]):
                    if t in ("function", "subroutine") and (i == 0 or st_[i - 1] != "end"):
                        ent["iface_bodies"].append(st_[i + 1])
                        break
                continue
            for i, t in enumerate(st_[:-1]):
                if t in ("function", "subroutine") and (i == 0 or st_[i - 1] != "end"):
                    ent["procs"].append(st_[i + 1])
                    break
        res[fn] = ent
    return res


_PYTAB = re.compile(r"static\s+PyMethodDef\s+(\w+)\s*\[\]\s*=\s*\{(.*?)\n\};", re.S)
_LUATAB = re.compile(r"luaL_Reg\s+(\w+)\s*\[\]\s*=\s*\{(.*?)\n\};", re.S)
_ENTRY = re.compile(r"\{\s*\"([^\"]+)\"\s*,")


def method_tables(files, which):
    res = {}
    pat = _PYTAB if which == "py" else _LUATAB
    for fn in sorted(files):
        base = fn.split("/")[-1]
        if not base.startswith("py" if which == "py" else "lua") or lex.file_kind(fn) != "c":
            continue
        text = files[fn].decode("utf-8", "replace")
        # drop comments
        text = re.sub(r"//[^\n]*", "", text)
        for m in pat.finditer(text):
            res[(fn, m.group(1))] = _ENTRY.findall(m.group(2))
    return res


# ---------------------------------------------------------------------------

def suffix_ok(rest, supplied):
    """rest must be a concatenation of supplied suffixes and documented defaults
    ('_<digits>' sequence numbers, '_<type>' for template instantiations)."""
    alts = sorted(set(re.escape(s) for s in supplied if s), key=len, reverse=True)
    alts += [r"_\d+", r"_(?:int|double|long|float)"]
    return re.match(r"^(?:%s)*$" % "|".join(alts), rest) is not None


def judge(lib, files):
    problems = []
    prefix = lib["library"][:3].upper() + "_"
    protos = c_prototypes(files, prefix)
    # companion functions (documented suffixes) are not callable signatures of their own
    plain = [p for p in protos if not (p.endswith("_bufferify") or p.endswith("_CFI"))]
    dup = sorted(set(p for p in protos if protos.count(p) > 1))
    if dup:
        problems.append(("c-duplicate-symbol", "C symbols declared more than once: %s" % dup))
    fent = fortran_entities(files)
    allprocs = {}
    for fn, e in fent.items():
        names = e["procs"] + e["iface_bodies"] + list(e["generics"])
        low = [n.lower() for n in names]
        d = sorted(set(n for n in low if low.count(n) > 1))
        if d:
            problems.append(("fortran-duplicate-entity", "%s: module entities defined twice: %s" % (fn, d)))
    infra = re.compile(r"^%sSHROUD_" % re.escape(prefix))
    claimed = set()
    for g in lib["groups"]:
        scope = g["scope"]
        if g["kind"] == "ctemplate":
            for t in g["insts"]:
                want = prefix + "".join(x + "_" for x in scope) + "%s_%s_" % (g["cls"], t) + un_camel(g["name"])
                n = plain.count(want)
                claimed.add(want)
                if n != 1:
                    problems.append(("c-entry-count:ctemplate",
                                     "method %s of %s<%s> in scope %s: %d C entry points named %s (all: %s)"
                                     % (g["name"], g["cls"], t, "::".join(scope) or "(library)", n, want,
                                        [p for p in plain if un_camel(g["name"]) in p])))
            continue
        stem = prefix + "".join(s + "_" for s in scope) + un_camel(g["name"])
        mine = [p for p in plain if p.startswith(stem) and suffix_ok(p[len(stem):], g["supplied"])]
        claimed.update(mine)
        if len(mine) != g["nsig"] * (1 + g.get("cextra", 0)) or len(set(mine)) != len(mine):
            problems.append(("c-entry-count:%s" % g["kind"],
                             "%s in scope %s has %d callable signatures but %d C entry points named %s* : %s"
                             % (g["name"], "::".join(scope) or "(library)", g["nsig"], len(mine), stem, mine)))
        # supplied suffixes must be used
        for s in g["supplied"]:
            if not any(s in p[len(stem):] for p in mine) and not _suffix_in_fortran(fent, s):
                problems.append(("supplied-suffix-unused", "suffix %r supplied for %s appears in no generated name" % (s, g["name"])))
        # Fortran specifics
        in_class = scope == ["Class1"]
        fscope = "".join(x.lower() + "_" for x in scope if x != "Class1") if lib.get("flatten") else ""
        fstem = fscope + ("class1_" if in_class else "") + un_camel(g["name"]).lower()
        modname = _module_file(lib, [] if lib.get("flatten") else scope, fent)
        e = fent.get(modname)
        if e is None:
            problems.append(("fortran-module-missing", "no Fortran module file for scope %s" % scope))
            continue
        cand = [n for n in e["procs"] + [b for b in e["iface_bodies"] if not b.startswith("c_")]
                if n.startswith(fstem) and suffix_ok(n[len(fstem):], [s.lower() for s in g["supplied"]])]
        want = g["nsig"] * g["ngeneric"]
        if len(cand) != want or len(set(cand)) != len(cand):
            problems.append(("fortran-specific-count:%s" % g["kind"],
                             "%s has %d callable Fortran signatures but %d specific procedures %s* : %s"
                             % (g["name"], want, len(cand), fstem, sorted(cand))))
        gname = (fscope if not in_class else "") + un_camel(g["name"]).lower()
        if in_class:
            tb = e["tb_generics"].get(gname)
            if want > 1:
                if tb is None:
                    problems.append(("fortran-generic-missing:class", "no type-bound generic %s for %d specifics" % (gname, want)))
                else:
                    impls = sorted(e["tb_procs"].get(b, b) for b in tb)
                    if impls != sorted(cand):
                        problems.append(("fortran-generic-list:class", "generic %s lists %s, specifics are %s" % (gname, impls, sorted(cand))))
        else:
            gl = e["generics"].get(gname)
            if want > 1 and gl is None:
                problems.append(("fortran-generic-missing", "no generic interface %s although %s has %d specifics" % (gname, g["name"], want)))
            if gl is not None and sorted(gl) != sorted(cand):
                problems.append(("fortran-generic-list", "generic interface %s lists %s but the specifics of %s are %s"
                                 % (gname, sorted(gl), g["name"], sorted(cand))))
    # every plain C entry point belongs to some group (or is infrastructure)
    for p in plain:
        if p not in claimed and not infra.match(p):
            problems.append(("c-entry-unexplained", "C entry point %s corresponds to no declared signature" % p))
    # method tables
    for which, flag in (("py", lib["python"]), ("lua", lib["lua"])):
        if not flag:
            continue
        tabs = method_tables(files, which)
        for key, entries in tabs.items():
            d = sorted(set(x for x in entries if entries.count(x) > 1))
            if d:
                problems.append(("%s-table-duplicate" % which, "%s table %s registers %s more than once" % (which, key[1], d)))
        allentries = [x for v in tabs.values() for x in v]
        for g in lib["groups"]:
            if g["kind"] == "ctemplate":
                continue
            # a template with a single instantiation is registered under name + template suffix
            n = len([x for x in allentries if x == g["name"] or
                     (x.startswith(g["name"]) and suffix_ok(x[len(g["name"]):], g["supplied"]))])
            if n < 1:
                problems.append(("%s-table-missing" % which, "%s is not registered in any %s method table" % (g["name"], which)))
    return problems


def _suffix_in_fortran(fent, s):
    for e in fent.values():
        for n in e["procs"] + e["iface_bodies"]:
            if s.lower() in n:
                return True
    return False


def _module_file(lib, scope, fent):
    ns = [s for s in scope if s != "Class1"]
    want = "wrapf" + ("_".join([lib["library"]] + ns) if ns else lib["library"].lower()) + ".f"
    for fn in fent:
        if fn == want:
            return fn
    return None


def _job(job):
    idx, lib = job
    text = to_yaml(lib)
    r = shroud_run.run_yaml(text, [], name="names")
    mech = sorted(set([g["kind"] for g in lib["groups"]] + (["default"] if any(g["has_default"] for g in lib["groups"]) else [])
                      + (["explicit-suffix"] if any(g["supplied"] for g in lib["groups"]) else [])
                      + sorted(set("scope:" + ("::".join(g["scope"]) or "library") for g in lib["groups"]))))
    out = dict(idx=idx, lib=lib, yaml=text, mech=mech, problems=[])
    if r.status != "ok":
        out["problems"].append(("shroud-stops:%s" % r.exc_type, "Shroud stops: " + r.describe()))
        return out
    try:
        out["problems"] = judge(lib, r.files)
    except lex.LexError as e:
        out["problems"] = [("HARNESS", "lexer: %r" % e)]
    return out


def exhaustive_descriptions():
    """Every single-group description below the bound x every scope x a second fixed group:
    overload sets of size 1-3 x which overload carries 0-2 defaults x suffix style
    (default numbering / default_arg_suffix / function_suffix on the others); templates with
    1-2 instantiations x explicit/default suffix; generics x default x explicit/default suffix."""
    scopes = [[], ["outer"], ["outer", "inner"], ["Class1"]]
    res = []
    for scope in scopes:
        in_class = scope == ["Class1"]
        for nov in (1, 2, 3):
            for idef in range(-1, nov):
                for nd in ((1, 2) if idef >= 0 else (0,)):
                    for style in ("default", "das", "fs"):
                        if style == "das" and idef < 0:
                            continue
                        g = dict(name="ovAlpha", kind="overload", decls=[], nsig=0, ngeneric=1, supplied=[],
                                 has_default=idef >= 0, scope=scope)
                        for i in range(nov):
                            params = ["%s a" % FIRST_TYPES[i]]
                            d = {}
                            k = 0
                            if i == idef:
                                k = nd
                                params += ["int d%d = %d" % (j, j + 1) for j in range(nd)]
                                if style == "das":
                                    d["default_arg_suffix"] = ["_n%d" % j for j in range(nd + 1)]
                                    g["supplied"] += d["default_arg_suffix"]
                            elif style == "fs":
                                d["format"] = {"function_suffix": "_alt%d" % i}
                                g["supplied"].append("_alt%d" % i)
                            d["decl"] = "void ovAlpha(%s)" % ", ".join(params)
                            g["decls"].append(d)
                            g["nsig"] += 1 + k
                        res.append([g])
        if in_class:
            continue
        for insts in (["int"], ["int", "double"], ["long", "float"]):
            for style in ("default", "explicit", "mixed"):
                g = dict(name="tmGamma", kind="template", decls=[], nsig=len(insts), ngeneric=1, supplied=[],
                         has_default=False, scope=scope)
                lst = []
                for j, t in enumerate(insts):
                    e = {"instantiation": "<%s>" % t}
                    if style == "explicit" or (style == "mixed" and j == 0):
                        e["format"] = {"template_suffix": "_ts%d" % j}
                        g["supplied"].append("_ts%d" % j)
                    lst.append(e)
                g["decls"].append({"decl": "template<typename T> void tmGamma(T arg)", "cxx_template": lst})
                res.append([g])
        for nd in (0, 1):
            for style in ("default", "explicit", "mixed"):
                g = dict(name="gnDelta", kind="generic", decls=[], nsig=1 + nd, ngeneric=2, supplied=[],
                         has_default=bool(nd), scope=scope)
                gl = []
                for j, t in enumerate(("float", "double")):
                    e = {"decl": "(%s arg)" % t}
                    if style == "explicit" or (style == "mixed" and j == 1):
                        e["function_suffix"] = "_g%s" % t[0]
                        g["supplied"].append("_g%s" % t[0])
                    gl.append(e)
                g["decls"].append({"decl": "void gnDelta(%s)" % ", ".join(["double arg"] + ["int d0 = 1"][:nd]),
                                   "fortran_generic": gl})
                res.append([g])
    out = []
    for groups in res:
        for py, lua in ((False, False), (True, True)):
            other = dict(name="FuncName", kind="overload", scope=[], nsig=2, ngeneric=1, supplied=[], has_default=False,
                         decls=[{"decl": "void FuncName(int a)"}, {"decl": "void FuncName(double a)"}])
            out.append(dict(library="NameLib", groups=[copy_group(g) for g in groups] + [other], python=py, lua=lua))
    return out


def copy_group(g):
    import copy
    return copy.deepcopy(g)


PROBES = {
    "template-with-default-argument": dict(library="NameLib", python=False, lua=False, groups=[
        dict(name="tmGamma", kind="template", scope=[], nsig=4, ngeneric=1, supplied=[], has_default=True,
             decls=[{"decl": "template<typename T> void tmGamma(T arg, int d0 = 1)",
                     "cxx_template": [{"instantiation": "<int>"}, {"instantiation": "<double>"}]}])]),
    "lua-same-name-in-two-namespaces": dict(library="NameLib", python=False, lua=True, groups=[
        dict(name="ovAlpha", kind="overload", scope=[], nsig=1, ngeneric=1, supplied=[], has_default=False,
             decls=[{"decl": "void ovAlpha(int a)"}]),
        dict(name="ovAlpha", kind="overload", scope=["outer"], nsig=1, ngeneric=1, supplied=[], has_default=False,
             decls=[{"decl": "void ovAlpha(int a)"}])]),
}


def run(ctx):
    quick = ctx.tier == "quick"
    ctx.rule = ("Hypothesis descriptions of 1-5 name groups (overload sets with default arguments and explicit/default "
                "function_suffix/default_arg_suffix, function templates with explicit/default template_suffix, "
                "fortran_generic functions, at library/namespace/nested namespace/class scope, Python/Lua on or off); "
                "non-trivial = at least two expansion mechanisms (overload, default, template, generic, explicit suffix, "
                "non-library scope) interact in the description; distinct by the description")
    ctx.assumptions = ["C entry points are read from the prototypes in generated wrap*.h headers, Fortran names from module "
                       "procedures, interface bodies, generic interfaces and type-bound generics",
                       "names drawn from a pool whose underscore forms are pairwise distinct and prefix-free",
                       "function template together with default arguments and same-named Lua functions in two namespaces "
                       "are probed separately (known findings) and not generated in the main search"]
    n = 400 if quick else 6000
    libs = smallgen.sample(description(), ctx.seed, n)
    if not quick:
        ex = exhaustive_descriptions()
        ctx.extra["exhaustive_single_group_descriptions"] = len(ex)
        libs = ex + libs
    for out in core.pool_map(_job, list(enumerate(libs)), chunksize=8):
        nmech = len([m for m in out["mech"] if not m.startswith("scope:library")])
        ctx.case(sample=dict(yaml=out["yaml"]) if nmech >= 4 else None,
                 nontrivial=out["yaml"] if nmech >= 2 else None, label=out["mech"])
        for key, note in out["problems"]:
            if key == "HARNESS":
                raise core.HarnessError(note)
            ctx.failure(key, dict(lib=out["lib"]), expected="one distinct, documented name per callable signature",
                        observed=note, note=note + "\n" + out["yaml"])
    for key, lib in sorted(PROBES.items()):
        out = _job((0, lib))
        ctx.case(label="probe")
        if out["problems"]:
            ctx.failure("probe:" + key, dict(probe=key, lib=lib), observed=out["problems"][0][1],
                        note="%s: %s" % (key, out["problems"][0][1]))


def replay(ctx, rec):
    lib = rec["case"]["lib"]
    out = _job((0, lib))
    for key, note in out["problems"]:
        ctx.failure(("probe:" + rec["case"]["probe"]) if rec["case"].get("probe") else key, rec["case"], observed=note, note=note)
