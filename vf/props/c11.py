"""C11 - enumeration constants keep their C++ values in C and Fortran.

Hypothesis generates enum declarations over the accepted expression grammar
(+ - * / parentheses, unary sign, decimal literals, references to earlier
members), explicit and implicit members mixed, plain and scoped, at library /
namespace / class scope; 20 enums per YAML.  Three compilers decide:
g++ prints the original enumerators (header holds the declaration verbatim),
gcc prints the enumerators of the generated C header, gfortran prints the
parameters of the generated module(s); the three lists must agree member by
member under the documented names.
"""
import os
import re
import shutil
import subprocess
import tempfile

import yaml
from hypothesis import strategies as st

from .. import core, shroud_run, smallgen

LEVEL = "exploration"

LIM = 1 << 20


def cdiv(a, b):
    q = abs(a) // abs(b)
    return q if (a >= 0) == (b >= 0) else -q


@st.composite
def cexpr(draw, earlier, depth=0):
    """-> (text, value) with C integer semantics, |value| < LIM, no division by zero."""
    r = draw(st.integers(0, 9))
    if depth >= 3 or r < 3:
        if earlier and draw(st.booleans()):
            name, val = draw(st.sampled_from(earlier))
            return name, val
        if draw(st.integers(0, 11)) == 0:
            t = draw(st.sampled_from(["010", "017", "0777", "00"]))   # C octal literals
            return t, int(t, 8)
        v = draw(st.sampled_from([0, 1, 2, 3, 5, 7, 10, 16, 100, 255, 1000]))
        return str(v), v
    if r < 7:
        for _ in range(4):
            op = draw(st.sampled_from(["+", "-", "*", "/"]))
            (lt, lv), (rt, rv) = draw(cexpr(earlier, depth + 1)), draw(cexpr(earlier, depth + 1))
            if op == "/" and rv == 0:
                continue
            v = {"+": lv + rv, "-": lv - rv, "*": lv * rv}.get(op)
            if op == "/":
                v = cdiv(lv, rv)
            if abs(v) >= LIM:
                continue
            # operands that are themselves lower-precedence binary expressions are parenthesised
            # by construction below, so the text means exactly the computed value
            sp = draw(st.sampled_from(["", " "]))
            # a binary right (or left) operand in parentheses: a / (b * c), a - (b - c), (a + b) * c
            if re.search(r"[-+*/]", rt[1:]) and not rt.startswith("(") and draw(st.booleans()):
                rt = "(%s)" % rt
            if re.search(r"[-+*/]", lt[1:]) and not lt.startswith("(") and draw(st.integers(0, 3)) == 0:
                lt = "(%s)" % lt
            if rt[0] in "+-":
                sp = " "      # 'a - -b' is legal C++, 'a--b' is not
            return "%s%s%s%s%s" % (lt, sp, op, sp, rt), v
        return "1", 1
    if r < 9:
        t, v = draw(cexpr(earlier, depth + 1))
        return "(%s)" % t, v
    t, v = draw(cexpr(earlier, depth + 1))
    sign = draw(st.sampled_from(["-", "+"]))
    if t[0] in "+-":
        t = "(%s)" % t
    return sign + t, (-v if sign == "-" else v)


def _value_of(text, env):
    """Independent evaluation of the generated text (precedence-aware) - used to make the generator
    itself consistent: the value stored is recomputed from the final text."""
    toks = re.findall(r"\d+|[A-Za-z_]\w*|[-+*/()]", text)
    pos = [0]

    def peek():
        return toks[pos[0]] if pos[0] < len(toks) else None

    def nxt():
        pos[0] += 1
        return toks[pos[0] - 1]

    def primary():
        t = nxt()
        if t == "(":
            v = expr_(0)
            nxt()
            return v
        if t in "+-":
            v = primary()
            return -v if t == "-" else v
        if t.isdigit():
            return int(t, 8) if (len(t) > 1 and t[0] == "0") else int(t)
        return env[t]

    def expr_(minp):
        lhs = primary()
        while peek() in ("+", "-", "*", "/"):
            op = peek()
            prec = 1 if op in "+-" else 2
            if prec < minp:
                break
            nxt()
            rhs = expr_(prec + 1)
            if op == "+":
                lhs = lhs + rhs
            elif op == "-":
                lhs = lhs - rhs
            elif op == "*":
                lhs = lhs * rhs
            else:
                if rhs == 0:
                    raise ZeroDivisionError
                lhs = cdiv(lhs, rhs)
            if abs(lhs) >= (1 << 31) - 1:
                raise ZeroDivisionError        # an intermediate result would overflow int: not a constant expression
        return lhs
    return expr_(0)


@st.composite
def enum(draw, idx):
    name = "En%d" % idx
    scoped = draw(st.integers(0, 3)) == 0
    n = draw(st.integers(1, 8))
    members = []
    env = {}
    earlier = []
    cur = -1
    for j in range(n):
        mname = "%s_M%d" % (name.upper(), j) if not scoped else "m%d" % j
        if draw(st.integers(0, 2)) == 0 and j > 0 or (j == 0 and draw(st.booleans())):
            text = None
            cur = cur + 1
        else:
            text = None
            for _ in range(5):
                t, _v = draw(cexpr(earlier))
                try:
                    v = _value_of(t, env)
                except ZeroDivisionError:
                    continue
                # keep the generated Fortran parameter statement (which has no break hints) well
                # inside 132 columns: at most 3 references to earlier members, text <= 45 characters
                if abs(v) < LIM and len(t) <= 45 and len(re.findall(r"[A-Za-z_]\w*", t)) <= 3:
                    text = t
                    cur = v
                    break
            if text is None:
                text, cur = "4", 4
        env[mname] = cur
        earlier.append((mname, cur))
        members.append(dict(name=mname, text=text, value=cur))
    scope = draw(st.sampled_from([[], [], ["outer"], ["Class1"], ["outer", "inner"]]))
    feats = []
    for j, m in enumerate(members):
        if m["text"] is None and j > 0 and members[j - 1]["text"] is not None and re.search(r"[-+*/(A-Za-z]", members[j - 1]["text"]):
            feats.append("implicit-after-expression")
        if m["text"] and re.search(r"[A-Za-z_]", m["text"]):
            feats.append("ref-earlier")
        if m["value"] < 0:
            feats.append("negative")
    return dict(name=name, scoped=scoped, scope=scope, members=members, feats=sorted(set(feats)))


def enum_text(e):
    body = ", ".join(m["name"] if m["text"] is None else "%s = %s" % (m["name"], m["text"]) for m in e["members"])
    return "enum %s%s { %s }" % ("class " if e["scoped"] else "", e["name"], body)


def build_yaml(lib, enums, options=None):
    top = []
    scopes = {}
    for e in enums:
        cur = top
        path = ()
        for s in e["scope"]:
            path += (s,)
            if path not in scopes:
                node = {"decl": ("class " if s == "Class1" else "namespace ") + s, "declarations": []}
                cur.append(node)
                scopes[path] = node["declarations"]
            cur = scopes[path]
        cur.append({"decl": enum_text(e) + ";"})
    return yaml.safe_dump({"library": lib, "cxx_header": "enums.hpp", "options": dict({"wrap_python": False, "wrap_lua": False}, **(options or {})),
                           "declarations": top}, sort_keys=False, width=4000)


def build_header(enums):
    lines = ["#ifndef ENUMS_HPP", "#define ENUMS_HPP"]
    byscope = {}
    for e in enums:
        byscope.setdefault(tuple(e["scope"]), []).append(e)
    for scope, es in sorted(byscope.items()):
        for s in scope:
            lines.append(("class %s { public:" % s) if s == "Class1" else "namespace %s {" % s)
        for e in es:
            lines.append(enum_text(e) + ";")
        for s in reversed(scope):
            lines.append("};" if s == "Class1" else "}")
    lines.append("#endif")
    return "\n".join(lines) + "\n"


def names_for(lib, e, m):
    prefix = lib[:3].upper() + "_"
    cscope = "".join(s + "_" for s in e["scope"]) + (e["name"] + "_" if e["scoped"] else "")
    cname = prefix + cscope + m["name"]
    fscope = ("class1_" if "Class1" in e["scope"] else "") + (e["name"].lower() + "_" if e["scoped"] else "")
    fname = fscope + m["name"].lower()
    cxx = "::".join(e["scope"] + ([e["name"]] if e["scoped"] else []) + [m["name"]])
    return cname, fname, cxx


def module_for(lib, e):
    ns = [s for s in e["scope"] if s != "Class1"]
    return (lib.lower() + "".join("_" + s for s in ns) + "_mod").lower()


def run_printer(work, tag, compiler_cmd, src_name, lines_for_items, header_lines, footer_lines, items):
    """Compile + run a program with one print line per item; items whose line does not
    compile are reported and dropped (up to 6 rounds).  -> (values {item: int}, errors {item: msg})"""
    errors = {}
    live = list(items)
    for _round in range(6):
        src = list(header_lines)
        lmap = {}
        for it in live:
            for ln in lines_for_items(it):
                src.append(ln)
                lmap[len(src)] = it
        src += footer_lines
        path = os.path.join(work, src_name)
        with open(path, "w") as fp:
            fp.write("\n".join(src) + "\n")
        exe = os.path.join(work, tag + ".exe")
        cp = subprocess.run(compiler_cmd + [path, "-o", exe], capture_output=True, text=True, cwd=work, timeout=300)
        if cp.returncode == 0:
            rp = subprocess.run([exe], capture_output=True, text=True, timeout=60)
            vals = {}
            for ln in rp.stdout.split("\n"):
                parts = ln.split()
                if len(parts) == 2 and parts[0] == "V":
                    pass
                if len(parts) == 3 and parts[0] == "V":
                    vals[int(parts[1])] = int(parts[2])
            return vals, errors
        badlines = set()
        for ln in cp.stderr.split("\n"):
            m = re.match(r"^(?:%s|%s):(\d+)[:.](?:\d+[:.])?" % (re.escape(path), re.escape(src_name)), ln.strip())
            if m:
                badlines.add(int(m.group(1)))
        # message per bad line: first 'error' after it
        hit = [lmap[b] for b in badlines if b in lmap]
        if not hit:
            raise core.HarnessError("%s does not compile and no item line is blamed:\n%s" % (src_name, cp.stderr[:1500]))
        msg = " | ".join(l.strip() for l in cp.stderr.split("\n") if "rror" in l)[:300]
        for it in hit:
            errors[it] = msg
        live = [it for it in live if it not in hit]
    raise core.HarnessError("too many rounds compiling " + src_name)


def _job(job):
    idx, lib, enums = job[:3]
    options = job[3] if len(job) > 3 else None
    out = dict(idx=idx, problems=[], n=0, nontrivial=[], sample=None)
    ytext = build_yaml(lib, enums, options)
    work = tempfile.mkdtemp(prefix="vf11_", dir=core.scratch_root())
    try:
        r = shroud_run.run_yaml(ytext, [], workdir=work, name="enums")
        if r.status != "ok":
            out["problems"].append(("shroud-stops", dict(lib=lib, enums=enums, options=options), "Shroud stops on an accepted-grammar enum: " + r.describe()))
            return out
        outd = os.path.join(work, "out")
        with open(os.path.join(outd, "enums.hpp"), "w") as fp:
            fp.write(build_header(enums))
        items = []
        info = {}
        for e in enums:
            for m in e["members"]:
                k = len(items)
                items.append(k)
                info[k] = (e, m) + names_for(lib, e, m)
        # C++ original
        cxx_vals, cxx_err = run_printer(outd, "cxx", ["g++", "-std=c++11", "-w", "-I", outd], "p_cxx.cpp",
                                        lambda k: ['std::printf("V %d %%ld\\n", (long)%s);' % (k, info[k][4])],
                                        ['#include <cstdio>', '#include "enums.hpp"', "int main() {"], ["return 0; }"], items)
        if cxx_err:
            raise core.HarnessError("generator produced an enum g++ rejects: %r" % list(cxx_err.values())[:1])
        # generated C headers
        hdrs = sorted(f for f in os.listdir(outd) if f.startswith("wrap") and f.endswith(".h"))
        # the generated headers by themselves must be valid C (an enumerator that refers to a constant
        # which does not exist, or exists only later, is a defect of the header, not of one printed line)
        with open(os.path.join(outd, "p_h.c"), "w") as fp:
            fp.write("".join('#include "%s"\n' % h for h in hdrs) + "int main(void) { return 0; }\n")
        cp = subprocess.run(["gcc", "-std=c99", "-w", "-I", outd, "-c", "p_h.c", "-o", "p_h.o"], cwd=outd,
                            capture_output=True, text=True, timeout=300)
        if cp.returncode != 0:
            msg = " | ".join(l.strip() for l in cp.stderr.split("\n") if "rror" in l)[:400]
            out["problems"].append(("c-header-does-not-compile", dict(lib=lib, enums=enums, options=options),
                                    "the generated C header is not valid C: " + msg))
            return out
        c_vals, c_err = run_printer(outd, "c", ["gcc", "-std=c99", "-w", "-I", outd], "p_c.c",
                                    lambda k: ['printf("V %d %%ld\\n", (long)%s);' % (k, info[k][2])],
                                    ['#include <stdio.h>'] + ['#include "%s"' % h for h in hdrs] + ["int main(void) {"],
                                    ["return 0; }"], items)
        # Fortran modules
        fsrc = sorted(f for f in os.listdir(outd) if f.startswith("wrapf") and f.endswith(".f"))
        # compile modules in dependency order: try repeatedly
        pending = list(fsrc)
        for _ in range(len(fsrc) + 1):
            rest = []
            for f in pending:
                cp = subprocess.run(["gfortran", "-cpp", "-ffree-form", "-c", f, "-I", outd], cwd=outd,
                                    capture_output=True, text=True, timeout=300)
                if cp.returncode != 0:
                    rest.append((f, cp.stderr))
            if not rest:
                break
            if len(rest) == len(pending):
                out["problems"].append(("fortran-module-does-not-compile", dict(lib=lib, enums=enums, options=options),
                                        "generated module %s does not compile: %s" % (rest[0][0], rest[0][1][-600:])))
                return out
            pending = [f for f, _e in rest]
        mods = sorted(set(module_for(lib, e) for e in enums))
        f_vals, f_err = run_printer(outd, "f", ["gfortran", "-ffree-form", "-w", "-I", outd], "p_f.f90",
                                    lambda k: ['  block', '    use %s, only : vfv => %s' % (module_for(lib, info[k][0]), info[k][3]),
                                               '    print "(A,I0,A,I0)", "V ", %d, " ", vfv' % k, '  end block'],
                                    ["program p"], ["end program p"], items)
        out["tables"] = []      # (enum text, C name, C value or error, Fortran name, Fortran value or error) - used by C04
        for k in items:
            e, m, cname, fname, cxx = info[k]
            out["n"] += 1
            want = cxx_vals.get(k)
            out["tables"].append((enum_text(e), cname, c_vals.get(k) if k not in c_err else "error", fname,
                                  f_vals.get(k) if k not in f_err else "error", e))
            if want is None:
                raise core.HarnessError("no C++ value for %s" % cxx)
            if want != m["value"]:
                raise core.HarnessError("generator's value model disagrees with g++ for %s: %s vs %s" % (enum_text(e), m["value"], want))
            case = dict(lib=lib, enums=[e], options=options)
            if k in c_err:
                out["problems"].append(("c-enumerator-missing-or-invalid", case,
                                        "%s: C enumerator %s of generated header does not compile: %s" % (enum_text(e), cname, c_err[k])))
            elif c_vals.get(k) != want:
                out["problems"].append(("c-value-differs", case, "%s: %s is %s in C++ but %s = %s in the generated C header"
                                        % (enum_text(e), cxx, want, cname, c_vals.get(k))))
            if k in f_err:
                out["problems"].append(("fortran-parameter-missing-or-invalid", case,
                                        "%s: Fortran parameter %s does not compile: %s" % (enum_text(e), fname, f_err[k])))
            elif f_vals.get(k) != want:
                out["problems"].append(("fortran-value-differs", case, "%s: %s is %s in C++ but %s = %s in the generated module"
                                        % (enum_text(e), cxx, want, fname, f_vals.get(k))))
        for e in enums:
            if "implicit-after-expression" in e["feats"] or "ref-earlier" in e["feats"]:
                out["nontrivial"].append(enum_text(e))
        out["sample"] = dict(enum=enum_text(enums[0]), scope=enums[0]["scope"],
                             values=[m["value"] for m in enums[0]["members"]])
        out["feats"] = [f for e in enums for f in (e["feats"] or ["plain"])] + ["scoped" if e["scoped"] else "unscoped" for e in enums] + \
                       ["scope:" + ("::".join(e["scope"]) or "library") for e in enums]
    finally:
        shutil.rmtree(work, ignore_errors=True)
    return out


PROBES = {
    "octal-literal": dict(name="EnOct", scoped=False, scope=[], feats=[], members=[
        dict(name="ENOCT_M0", text="010", value=8), dict(name="ENOCT_M1", text=None, value=9)]),
}


def run(ctx):
    quick = ctx.tier == "quick"
    ctx.rule = ("Hypothesis enum declarations (1-8 members, explicit values from the expression grammar with references to "
                "earlier members, implicit members, plain/enum class, library/namespace/nested namespace/class scope), "
                "20 per YAML; evaluations = enumerators compared in the three compilers; non-trivial = an enum with an "
                "implicit member after an expression-valued one or a reference to an earlier member; distinct by text")
    ctx.assumptions = ["values kept inside +-2^20 by construction; division by zero never generated",
                       "enumerators are looked up under the documented names {C_prefix}{C_name_scope}{member} and "
                       "{F_name_scope}{member_lower}",
                       "g++/gcc/gfortran 12 evaluate the three texts; the generator's own value model must agree with g++ "
                       "(else harness error)",
                       "decimal and octal integer literals (the tokenizer has no hexadecimal form)"]
    nyaml = 48 if quick else 400
    per = 20

    @st.composite
    def batch(draw):
        return [draw(enum(i)) for i in range(per)]
    batches = smallgen.sample(batch(), ctx.seed, nyaml)
    # every third YAML sets the documented C_line_length / F_line_length options to small values: long
    # enumerator lines are then the rule (the values must not depend on how a line is laid out)
    LENGTHS = [None, None, {"C_line_length": 40}, None, None, {"C_line_length": 30, "F_line_length": 60}]
    jobs = [(i, "EnumLib", b, LENGTHS[i % len(LENGTHS)]) for i, b in enumerate(batches)]
    for out in core.pool_map(_job, jobs):
        ctx.case(n=out["n"], label=out.get("feats") or ["failed"])
        for nt in out["nontrivial"]:
            ctx.case(n=0, nontrivial=nt)
        if out["sample"]:
            ctx.case(n=0, sample=out["sample"])
        for key, case, note in out["problems"]:
            ctx.failure(key, case, expected="same value in C++, C and Fortran", observed=note, note=note)
    for key, e in sorted(PROBES.items()):
        out = _job((0, "EnumLib", [e]))
        ctx.case(label="probe")
        if out["problems"]:
            ctx.failure("probe:" + key, dict(probe=key, lib="EnumLib", enums=[e]), observed=out["problems"][0][2],
                        note="%s: %s" % (key, out["problems"][0][2]))


def replay(ctx, rec):
    c = rec["case"]
    out = _job((0, c["lib"], c["enums"], c.get("options")))
    for key, case, note in out["problems"]:
        ctx.failure(("probe:" + c["probe"]) if c.get("probe") else key, c, observed=note, note=note)
