"""C10 - character data crosses the language boundary by the documented rules.

G1 (helper level, exhaustive small scope): the C text of the string helpers is
   taken from what Shroud itself writes (--write-helpers, i.e. after its own line
   formatter), for a C and a C++ library, compiled with AddressSanitizer into a
   driver that enumerates ALL (ndest, nsrc, contents over {a,' ',b}) up to a
   bound on exact-size heap buffers (so any out-of-bounds read/write traps) with
   guard words around them; a Python reference of the documented rule predicts
   every output line.
G2 (end to end): Fortran drivers over generated string wrappers - see vf/exec
   (run when the executed-wrapper machinery is available).
"""
import itertools
import os
import re
import shutil
import subprocess
import tempfile

from .. import core, shroud_run

LEVEL = "exploration"

ALPHA = "a b"


def extract_helpers(text):
    """{(name, key): source} from the file written by --write-helpers."""
    res = {}
    cur = None
    buf = []
    for ln in text.split("\n"):
        m = re.match(r"^##### start (\S+) (\S+)", ln)
        if m:
            cur = (m.group(1), m.group(2))
            buf = []
            continue
        if ln.startswith("##### end"):
            if cur:
                res[cur] = "\n".join(buf)
            cur = None
            continue
        if cur:
            buf.append(ln)
    return res


def helper_source(helpers, name, lang):
    for key in (("c_source" if lang == "c" else "cxx_source"), "source"):
        if (name, key) in helpers:
            return helpers[(name, key)]
    return None


DRIVER = r"""
#include <stdio.h>
#include <stdlib.h>
#include <string.h>
%(includes)s
%(helpers)s

static const char ALPHA[3] = {'a', ' ', 'b'};

/* exact-size heap copy: ASan traps any access outside [0, n) */
static char *exact(const char *s, int n) {
    char *p = (char *) malloc(n > 0 ? n : 1);
    if (n > 0 && s != NULL) memcpy(p, s, n);
    return p;
}
static void show(const char *tag, const char *p, int n) {
    int i;
    fputs(tag, stdout);
    putchar('"');
    for (i = 0; i < n; i++) {
        unsigned char c = (unsigned char) p[i];
        if (c == 0) { putchar('\\'); putchar('0'); }
        else if (c == 0x7e) putchar('~');
        else putchar(c);
    }
    putchar('"');
}
static void content(char *buf, int n, long code) {
    int i;
    for (i = 0; i < n; i++) { buf[i] = ALPHA[code %% 3]; code /= 3; }
}
static long ipow3(int n) { long r = 1; while (n-- > 0) r *= 3; return r; }

int main(void) {
    int B = %(bound)d;
    char tmp[64];
%(body)s
    return 0;
}
"""

BODY = {
    "ShroudStrCopy": r"""
    { int ndest, nsrc; long code;
      for (ndest = 0; ndest <= B; ndest++) {
        /* NULL source */
        { char *d = exact(NULL, ndest); memset(d, '~', ndest);
          ShroudStrCopy(d, ndest, NULL, 0);
          printf("StrCopy %d NULL 0 ", ndest); show("", d, ndest); putchar('\n'); free(d); }
        for (nsrc = 0; nsrc <= B; nsrc++) {
          for (code = 0; code < ipow3(nsrc); code++) {
            int mode;
            content(tmp, nsrc, code);
            for (mode = 0; mode < 2; mode++) {
              /* mode 0: explicit length, buffer of exactly nsrc chars; mode 1: nsrc = -1, NUL terminated */
              char *s; char *d = exact(NULL, ndest); memset(d, '~', ndest);
              if (mode == 0) { s = exact(tmp, nsrc); ShroudStrCopy(d, ndest, s, nsrc); }
              else { tmp[nsrc] = 0; s = exact(tmp, nsrc + 1); ShroudStrCopy(d, ndest, s, -1); }
              printf("StrCopy %d %d %d ", ndest, mode, nsrc); show("", tmp, nsrc); show(" ", d, ndest); putchar('\n');
              free(s); free(d);
            }
          }
        }
      }
    }
""",
    "ShroudStrBlankFill": r"""
    { int ndest, n; long code;
      for (ndest = 1; ndest <= B; ndest++) {
        for (n = 0; n < ndest; n++) {          /* C string of length n < ndest in a buffer of ndest */
          for (code = 0; code < ipow3(n); code++) {
            char *d = exact(NULL, ndest); memset(d, '~', ndest);
            content(d, n, code); d[n] = 0;
            content(tmp, n, code);
            ShroudStrBlankFill(d, ndest);
            printf("BlankFill %d %d ", ndest, n); show("", tmp, n); show(" ", d, ndest); putchar('\n');
            free(d);
          }
        }
      }
    }
""",
    "ShroudLenTrim": r"""
    { int nsrc; long code;
      for (nsrc = 0; nsrc <= B; nsrc++) {
        for (code = 0; code < ipow3(nsrc); code++) {
          char *s; int r;
          content(tmp, nsrc, code);
          s = exact(tmp, nsrc);
          r = ShroudLenTrim(s, nsrc);
          printf("LenTrim %d ", nsrc); show("", tmp, nsrc); printf(" %d\n", r);
          free(s);
        }
      }
    }
""",
    "ShroudStrAlloc": r"""
    { int nsrc; long code; int mode;
      for (nsrc = 0; nsrc <= B; nsrc++) {
        for (code = 0; code < ipow3(nsrc); code++) {
          for (mode = 0; mode < 2; mode++) {
            char *s; char *r; int ntrim;
            content(tmp, nsrc, code);
            s = exact(tmp, nsrc);
            /* callers pass -1 or the Fortran len_trim of the actual argument */
            ntrim = -1;
            if (mode == 1) { ntrim = nsrc; while (ntrim > 0 && tmp[ntrim-1] == ' ') ntrim--; }
            r = ShroudStrAlloc(s, nsrc, ntrim);
            printf("StrAlloc %d %d ", nsrc, mode); show("", tmp, nsrc); show(" ", r, (int) strlen(r) + 1); putchar('\n');
            ShroudStrFree(r);
            free(s);
          }
        }
      }
    }
""",
    "ShroudStrArrayAlloc": r"""
    { int nstr, len; long code; int A = B < 3 ? B : 3;
      for (nstr = 0; nstr <= 2; nstr++) {
        for (len = 0; len <= A; len++) {
          for (code = 0; code < ipow3(nstr * len); code++) {
            char *s; char **r; int i;
            content(tmp, nstr * len, code);
            s = exact(tmp, nstr * len);
            r = ShroudStrArrayAlloc(s, nstr, len);
            printf("StrArrayAlloc %d %d ", nstr, len); show("", tmp, nstr * len);
            for (i = 0; i < nstr; i++) show(" ", r[i], (int) strlen(r[i]) + 1);
            putchar('\n');
            ShroudStrArrayFree(r, nstr);
            free(s);
          }
        }
      }
    }
""",
}

DEPENDS = {"ShroudStrAlloc": ["ShroudLenTrim", "ShroudStrAlloc", "ShroudStrFree"],
           "ShroudStrArrayAlloc": ["ShroudLenTrim", "ShroudStrArrayAlloc", "ShroudStrArrayFree"],
           "ShroudStrCopy": ["ShroudStrCopy"], "ShroudStrBlankFill": ["ShroudStrBlankFill"],
           "ShroudLenTrim": ["ShroudLenTrim"]}


def esc(s):
    return '"' + "".join("\\0" if c == "\0" else c for c in s) + '"'


def reference(parts):
    """Expected last field(s) of an output line, from the documented rule."""
    tag = parts[0]
    if tag == "StrCopy":
        ndest = int(parts[1])
        if parts[2] == "NULL":
            return [esc(" " * ndest)]
        src = parts[-2][1:-1] if False else None
    return None


def unq(s):
    assert s[0] == '"' and s[-1] == '"', s
    return s[1:-1].replace("\\0", "\0")


def parse_line(ln):
    """Split an output line into fields, respecting the quoted fields (which contain blanks)."""
    fields = []
    i = 0
    while i < len(ln):
        if ln[i] == " ":
            i += 1
            continue
        if ln[i] == '"':
            j = i + 1
            while ln[j] != '"':
                j += 1
            fields.append(ln[i:j + 1])
            i = j + 1
        else:
            j = i
            while j < len(ln) and ln[j] != " ":
                j += 1
            fields.append(ln[i:j])
            i = j
    return fields


def lentrim(s):
    return len(s.rstrip(" "))


def expected_for(f):
    """Documented rule -> expected observed fields."""
    tag = f[0]
    if tag == "StrCopy":
        ndest = int(f[1])
        if f[2] == "NULL":
            return [esc(" " * ndest)]            # NULL -> blank
        src = unq(f[4])
        return [esc((src[:ndest]).ljust(ndest))]  # truncate or blank pad, never a NUL
    if tag == "BlankFill":
        ndest = int(f[1])
        src = unq(f[3])
        return [esc(src.ljust(ndest))]
    if tag == "LenTrim":
        return [str(lentrim(unq(f[2])))]
    if tag == "StrAlloc":
        src = unq(f[3])
        return [esc(src[:lentrim(src)] + "\0")]   # trailing blanks removed, NUL terminated
    if tag == "StrArrayAlloc":
        nstr, ln = int(f[1]), int(f[2])
        src = unq(f[3])
        return [esc(src[i * ln:(i + 1) * ln].rstrip(" ") + "\0") for i in range(nstr)]
    raise core.HarnessError("unknown line " + repr(f))


def nfixed(tag):
    return {"StrCopy": 5, "BlankFill": 4, "LenTrim": 3, "StrAlloc": 4, "StrArrayAlloc": 4}[tag]


def _helper_job(job):
    lang, helper, bound, helpers = job
    out = dict(lang=lang, helper=helper, n=0, nontrivial=0, problems=[], sample=None)
    srcs = []
    for dep in DEPENDS[helper]:
        s = helper_source(helpers, dep, lang)
        if s is None:
            out["problems"].append(("helper-missing:" + dep, "helper %s has no %s source" % (dep, lang)))
            return out
        srcs.append(s)
    work = tempfile.mkdtemp(prefix="vf10_", dir=core.scratch_root())
    try:
        ext = "c" if lang == "c" else "cpp"
        inc = "" if lang == "c" else "#include <cstring>\n#include <cstdlib>\n#include <string>"
        src = DRIVER % dict(includes=inc, helpers="\n".join(srcs), bound=bound, body=BODY[helper])
        path = os.path.join(work, "drv." + ext)
        open(path, "w").write(src)
        cc = ["gcc", "-std=c99"] if lang == "c" else ["g++", "-std=c++11"]
        exe = os.path.join(work, "drv")
        cp = subprocess.run(cc + ["-g", "-O0", "-fsanitize=address,undefined", "-fno-omit-frame-pointer", "-w", path, "-o", exe],
                            capture_output=True, text=True, timeout=300)
        if cp.returncode != 0:
            out["problems"].append(("helper-does-not-compile:%s:%s" % (helper, lang),
                                    "%s (%s) as written by Shroud does not compile: %s" % (helper, lang, cp.stderr[-800:])))
            return out
        env = dict(os.environ, ASAN_OPTIONS="detect_leaks=1:abort_on_error=0:halt_on_error=1", UBSAN_OPTIONS="halt_on_error=1")
        rp = subprocess.run([exe], capture_output=True, text=True, timeout=900, env=env)
        lines = [l for l in rp.stdout.split("\n") if l]
        for ln in lines:
            f = parse_line(ln)
            k = 4 if (f[0] == "StrCopy" and f[2] == "NULL") else nfixed(f[0])
            obs = f[k:]
            exp = expected_for(f)
            out["n"] += 1
            if f[0] == "StrCopy" and f[2] != "NULL":
                nt = int(f[1]) != int(f[3]) or " " in unq(f[4])
            else:
                nt = " " in ln
            if nt:
                out["nontrivial"] += 1
                if out["sample"] is None and out["n"] > 50:
                    out["sample"] = dict(helper=helper, language=lang, call=f[:k], observed=obs)
            if obs != exp:
                out["problems"].append(("helper-result:%s" % helper,
                                        "%s (%s) %s: documented rule gives %s, helper produced %s" % (helper, lang, " ".join(f[:k]), exp, obs)))
                if len(out["problems"]) > 3:
                    break
        if rp.returncode != 0:
            kind = "asan" if "AddressSanitizer" in rp.stderr else "ubsan" if "runtime error" in rp.stderr else "crash"
            m = re.search(r"ERROR: AddressSanitizer: (\S+)", rp.stderr)
            out["problems"].append(("helper-memory:%s:%s" % (helper, m.group(1) if m else kind),
                                    "%s (%s): sanitizer / abnormal exit after %d calls; last call: %s\n%s"
                                    % (helper, lang, len(lines), lines[-1] if lines else "-", rp.stderr[:1200])))
    finally:
        shutil.rmtree(work, ignore_errors=True)
    return out


def get_helpers(lang):
    """Helper sources as written by Shroud for a library of the given language."""
    yaml_text = "library: hlp\nlanguage: %s\ncxx_header: hlp.h\ndeclarations:\n- decl: void f(const char *s)\n" % lang
    work = tempfile.mkdtemp(prefix="vf10h_", dir=core.scratch_root())
    try:
        r = shroud_run.run_yaml(yaml_text, ["--write-helpers", "helpers"], workdir=work, name="hlp")
        if r.status != "ok":
            raise core.HarnessError("cannot write helpers: " + r.describe())
        p = os.path.join(work, "out", "helpers.c")
        return extract_helpers(open(p).read())
    finally:
        shutil.rmtree(work, ignore_errors=True)


def run(ctx):
    quick = ctx.tier == "quick"
    bound = 5 if quick else 7
    ctx.rule = ("G1: for each string helper x {c, c++} source variant as written by Shroud: ALL (ndest, nsrc/ntrim mode, "
                "contents over {a, blank, b}) with lengths 0..%d (char** helper: up to 2 strings x 3 characters) on "
                "exact-size heap buffers under ASan+UBSan; evaluations = helper calls; non-trivial = lengths differ or "
                "content contains a blank; distinct by (helper, language, arguments) - every call is distinct" % bound)
    ctx.assumptions = ["preconditions are those real callers satisfy: ShroudStrBlankFill gets a C string shorter than the buffer "
                       "(the library wrote it there); ShroudStrAlloc gets ntrim = -1 or the len_trim of the actual argument",
                       "helper text is taken from Shroud's own --write-helpers output (after its line formatter)",
                       "ShroudCopyStringAndFree / ShroudStrToArray need the array descriptor and are covered end to end (G2)"]
    ctx.extra["exhaustive"] = True
    jobs = []
    for lang in ("c", "c++"):
        helpers = get_helpers(lang)
        for h in sorted(BODY):
            jobs.append((lang, h, bound, helpers))
    for out in core.pool_map(_helper_job, jobs):
        ctx.evaluations += out["n"]
        ctx.labels["G1:%s:%s" % (out["helper"], out["lang"])] += out["n"]
        # every enumerated call is distinct; count the non-trivial ones
        for i in range(out["nontrivial"]):
            pass
        ctx.extra["nontrivial_calls"] = ctx.extra.get("nontrivial_calls", 0) + out["nontrivial"]
        if out["sample"]:
            ctx.case(n=0, sample=out["sample"])
        for key, note in out["problems"]:
            ctx.failure(key, dict(part="G1", lang=out["lang"], helper=out["helper"], bound=bound),
                        expected="documented copy / trim / blank-fill rule, no access outside the given lengths",
                        observed=note, note=note)
    # distinct_nontrivial is a count of distinct calls here (each enumerated call occurs once)
    ctx.nontrivial = set(range(ctx.extra.get("nontrivial_calls", 0)))
    try:
        from ..exec import strings_e2e
        strings_e2e.run_c10(ctx)
    except ImportError:
        ctx.assumptions.append("G2 (end-to-end Fortran string drivers) not available in this build")


def replay(ctx, rec):
    c = rec["case"]
    if c.get("part") == "G1":
        helpers = get_helpers(c["lang"])
        out = _helper_job((c["lang"], c["helper"], c["bound"], helpers))
        for key, note in out["problems"]:
            ctx.failure(key, c, observed=note, note=note)
    else:
        from ..exec import strings_e2e
        strings_e2e.replay_c10(ctx, rec)
