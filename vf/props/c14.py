"""C14 - equivalent ways of stating the same customisation give identical output.

Relations (byte comparison of the written wrapper files; .json/.log excluded
because they record *where* an option was written and YAML line numbers):
 a1  function-scoped option / format field on a container (library,
     namespace, class, block)  ==  the same setting on every contained function
 a2  sibling independence: a setting on one function leaves the generated
     pieces of every other function (delimited by the 'Function:' headers
     that debug: True writes in every output language) byte-identical
 b   inline +attr(v)  ==  attrs: / fattrs:
 c   --option k=v, --language  ==  options: / language: in the YAML file
 d   wrapping declarations into an empty block: is transparent
 e   shroud.create_wrapper(f, outdir, path)  ==  shroud f --outdir --path
"""
import copy
import difflib
import os
import re
import shutil
import tempfile

from hypothesis import strategies as st

from .. import core, corpus, meta, shroud_run, smallgen

LEVEL = "exploration"

# Function-scoped settings: each is read from the FunctionNode's own scope when the wrapper of
# that function is written (file:function where it is read), never at container level.
FUNC_OPTIONS = [
    ("F_force_wrapper", True),            # wrapf.wrap_function_impl: options = node.options
    ("C_force_wrapper", True),            # wrapc.wrap_function
    ("F_create_bufferify_function", False),  # generate.define_function_suffix: method.options
    ("F_string_len_trim", False),         # generate.arg_to_buffer: node.options
    ("return_scalar_pointer", "scalar"),  # generate.check_return_pointer: node.options
    ("F_assumed_rank_max", 2),            # generate.process_assumed_rank: node.options
    ("F_CFI", True),                      # generate.define_function_suffix: function.options.F_CFI
    ("F_return_fortran_pointer", False),  # generate / wrapf: node.options
    ("C_var_len_template", "LEN{c_var}"),    # generate.arg_to_buffer: options of the function
    ("C_var_trim_template", "TRIM{c_var}"),
    ("F_line_length", None),              # placeholder, never used (container-level) - filtered below
]
FUNC_OPTIONS = [x for x in FUNC_OPTIONS if x[1] is not None]
FUNC_FORMATS = [
    ("F_C_prefix", "cc_"),       # ast.FunctionNode.default_format / wrapf
    ("C_result", "rvx"),         # wrapc.wrap_function: fmt_func
    ("F_result", "rvy"),         # wrapf.wrap_function_impl: fmt_func
    ("C_bufferify_suffix", "_bfy"),  # generate.arg_to_buffer: fmt_func
    ("C_local", "LOC_"),         # statements templates via fmt
    ("c_temp", "TMP_"),
]

STRING_KEYS = ("F_CFI", "F_create_bufferify_function", "F_string_len_trim", "C_var_len_template", "C_var_trim_template",
               "C_bufferify_suffix")
POINTER_KEYS = ("return_scalar_pointer", "F_return_fortran_pointer", "F_assumed_rank_max")

CLI_OPTIONS = [
    ("debug", True), ("debug", False), ("doxygen", False), ("F_force_wrapper", True),
    ("C_line_length", 60), ("F_line_length", 90), ("C_line_length", 100),
    ("F_string_len_trim", False), ("wrap_python", False), ("wrap_lua", False),
    ("return_scalar_pointer", "scalar"), ("C_API_case", "lower"), ("C_API_case", "upper"),
    ("F_API_case", "preserve"), ("show_splicer_comments", False), ("F_CFI", True),
    ("literalinclude2", True), ("F_assumed_rank_max", 3), ("PY_array_arg", "list"),
    # name templates (reference.rst): a value that is one {field}, and values with several
    ("F_name_generic_template", "{underscore_name}"), ("F_name_generic_template", "{function_name}"),
    ("F_name_function_template", "{underscore_name}_fn{function_suffix}{template_suffix}"),
    ("C_name_template", "{C_prefix}{C_name_scope}{underscore_name}_c{function_suffix}{template_suffix}"),
]

SKIP = ("json", "log")


def files_of(r):
    return {f: b for f, b in r.files.items() if not f.endswith((".json", ".log"))}


def functions_under(doc, cpath):
    """Paths of function declarations under container path (None = library)."""
    res = []
    for path, node, _ in meta.walk_decls(doc):
        if meta.decl_kind(node) != "function":
            continue
        if cpath is None or path[:len(cpath)] == tuple(cpath) and len(path) > len(cpath):
            res.append(path)
    return res


def containers(doc):
    res = [None]
    seen_classes = set()
    for path, node, _ in meta.walk_decls(doc):
        if meta.decl_kind(node) == "class":
            cname = decl_name(node["decl"])
            if cname in seen_classes:
                # struct.rst "Forward Declaration": format and options must be given on the initial decl of a
                # class; the later decl that adds the declarations is not a place to set them
                continue
            seen_classes.add(cname)
        if meta.decl_kind(node) in ("class", "namespace", "block", "template"):      # ("template": a class template)
            if functions_under(doc, path):
                res.append(path)
    return res


def set_on(doc, path, kind, key, value):
    return (meta.with_options if kind == "option" else meta.with_format)(doc, {key: value}, path)


def decl_name(decl):
    head = decl.split("(")[0].replace("*", " ").replace("&", " ").split()
    return head[-1] if head else ""


_HDR = re.compile(r"^\s*(//|!)\s*Function:\s+(.*)$")


def function_chunks(files, names):
    """With debug on, every generated piece of a function starts with a
    '<comment> Function:  <declaration>' header.  Returns {function name:
    [lines of all its pieces]}; a piece ends with the line that closes it
    ('}' in column one, 'end function/subroutine')."""
    res = {}
    for fn in sorted(files):
        lines = files[fn].decode("utf-8", "replace").split("\n")
        cur = None
        for ln in lines:
            m = _HDR.match(ln)
            if m:
                words = set(re.findall(r"[A-Za-z_][A-Za-z0-9_]*", m.group(2)))
                hit = [n for n in names if n in words]
                cur = hit[0] if len(hit) == 1 else None
                if cur is not None:
                    res.setdefault(cur, []).append("@@ " + fn)
            if cur is not None:
                # the capsule-destructor index is a library-wide numbering (like a line
                # number); a shift caused by another function is not a change of this wrapper
                ln = re.sub(r"idtor(\s*)=(\s*)\d+", r"idtor\1=\2#", ln)
                # (the capsule destructor index is also the last argument of ShroudStrToArray)
                ln = re.sub(r"(ShroudStrToArray\(.*,\s*)\d+\);", r"\1#);", ln)
                res[cur].append(ln)
                s_ = ln.strip().lower()
                if ln == "}" or s_.startswith("end function") or s_.startswith("end subroutine"):
                    cur = None
    return res


def merge3(base, a, b):
    """Line-based three-way merge.  Returns (merged lines or None, reason)."""
    def hunks(x):
        sm = difflib.SequenceMatcher(a=base, b=x, autojunk=False)
        return [(i1, i2, x[j1:j2]) for tag, i1, i2, j1, j2 in sm.get_opcodes() if tag != "equal"]
    ha, hb = hunks(a), hunks(b)
    allh = []
    for h in ha:
        allh.append(h)
    for h in hb:
        if h in ha:
            continue  # identical change on both sides
        for g in ha:
            lo, hi = max(h[0], g[0]), min(h[1], g[1])
            overlap = lo < hi or (h[0] == h[1] and g[0] <= h[0] < g[1]) or (g[0] == g[1] and h[0] <= g[0] < h[1]) \
                or (h[0] == h[1] == g[0] == g[1])
            if overlap:
                return None, "both settings change base lines %d-%d / %d-%d" % (g[0] + 1, g[1], h[0] + 1, h[1])
        allh.append(h)
    allh.sort(key=lambda h: (h[0], h[1]))
    out = []
    pos = 0
    for i1, i2, repl in allh:
        out.extend(base[pos:i1])
        out.extend(repl)
        pos = i2
    out.extend(base[pos:])
    return out, ""


# ---------------------------------------------------------------------------
# inline attributes -> attrs / fattrs

_ATTR = re.compile(r"\+(\w+)(?:\(((?:[^()]|\([^()]*\))*)\))?")


def attrs_to_yaml(attr_text):
    d = {}
    for m in _ATTR.finditer(attr_text or ""):
        name, val = m.group(1), m.group(2)
        if val is None:
            d[name] = True
        elif name in ("rank", "len", "charlen") and val.isdigit():
            d[name] = int(val)     # docs/input.rst writes these as YAML integers
        else:
            d[name] = val
    return d


def with_name_attrs(model):
    """The function attribute +name(...) (input.rst: 'Name of the method. Useful for constructor and
    destructor methods') added to every other plain function, method and constructor."""
    m = copy.deepcopy(model)
    k = 0
    for path, f in smallgen.walk_functions(m):
        k += 1
        if f.get("generic") or f.get("template") or f.get("overload") or k % 2 or "+name" in (f.get("rattrs") or ""):
            continue
        f["rattrs"] = ((f.get("rattrs") or "") + " +name(renamed%d)" % k).strip()
    return m


def move_attrs(model):
    """Model with every inline attribute moved to attrs:/fattrs:.  Returns (model, count)."""
    m = copy.deepcopy(model)
    n = 0
    for path, f in smallgen.walk_functions(m):
        attrs = {}
        for p in f["params"]:
            if p["attrs"]:
                attrs[p["name"]] = attrs_to_yaml(p["attrs"])
                p["attrs"] = ""
                n += 1
        extra = dict(f.get("extra") or {})
        if attrs:
            extra["attrs"] = attrs
        if f.get("rattrs"):
            extra["fattrs"] = attrs_to_yaml(f["rattrs"])
            f["rattrs"] = ""
            n += 1
        f["extra"] = extra
    return m, n


# ---------------------------------------------------------------------------

def _run(text, argv, name):
    r = shroud_run.run_yaml(text, argv, name=name)
    return r


def _job(job):
    kind = job["kind"]
    name = job["name"]
    out = dict(kind=kind, name=name, runs=0, fails=[], nontrivial=[], sample=None)
    case = {k: v for k, v in job.items()}

    def fail(key, note):
        out["fails"].append((key, case, note))

    def compare(ra, rb, what, key):
        out["runs"] += 2
        if ra.status != "ok" or rb.status != "ok":
            if ra.status != rb.status or (ra.exc_type, ra.exc_msg) != (rb.exc_type, rb.exc_msg):
                fail(key + ":one-side-fails", "%s: first: %s / second: %s" % (what, ra.describe(), rb.describe()))
            return False
        d = meta.byte_diff(files_of(ra), files_of(rb))
        if d:
            fail(key, "%s: %s %s" % (what, d[0][0], d[0][1]))
        return True

    if kind == "a1":
        doc = meta.load(job["yaml"])
        cpath = tuple(job["container"]) if job["container"] is not None else None
        # member variables make Shroud generate getter / setter functions that no declaration names: the container's
        # setting reaches them, "each contained declaration" cannot - the two sides are not the same statement
        for p_, n_, _l in meta.walk_decls(doc):
            if meta.decl_kind(n_) == "variable" and (cpath is None or p_[:len(cpath)] == cpath):
                out["skipped"] = 1
                return out
        A = set_on(doc, cpath, job["what"], job["key"], job["value"])
        B = doc
        for p in functions_under(doc, cpath):
            B = set_on(B, p, job["what"], job["key"], job["value"])
        ra, rb = _run(meta.dump(A), job["argv"], name), _run(meta.dump(B), job["argv"], name)
        if compare(ra, rb, "%s %s=%r on container %s vs on each function" % (job["what"], job["key"], job["value"], cpath),
                   "a1:%s:%s" % (job["what"], job["key"])):
            base = _run(meta.dump(doc), job["argv"], name)
            out["runs"] += 1
            if base.status == "ok" and files_of(base) != files_of(ra):
                out["nontrivial"].append(("a1", name, job["key"], repr(cpath)))
                out["sample"] = dict(relation="a1", lib=name, setting={job["key"]: job["value"]}, container=cpath)
    elif kind == "a2":
        doc = meta.with_options(meta.load(job["yaml"]), {"debug": True})
        pf = tuple(job["f"])
        fname = decl_name(meta.get_node(doc, pf)["decl"])
        Vf = set_on(doc, pf, job["what"], job["key"], job["value"])
        rb, rf = _run(meta.dump(doc), job["argv"], name), _run(meta.dump(Vf), job["argv"], name)
        out["runs"] += 2
        if rb.status != "ok" or rf.status != "ok":
            # the setting is not applicable to this function (e.g. no buffer function for a
            # std::vector argument): nothing to say about siblings
            out["skipped"] = 1
            return out
        fb, ff = files_of(rb), files_of(rf)
        classes = set(decl_name(n["decl"]) for _p, n, _l in meta.walk_decls(doc) if meta.decl_kind(n) == "class")
        ident = re.compile(r"^[A-Za-z_][A-Za-z0-9_]*$")
        if not ident.match(fname) or fname in classes:
            return out   # constructors / destructors share the class name: pieces cannot be told apart by name
        others = sorted(n for n in set(decl_name(meta.get_node(doc, p)["decl"]) for p in functions_under(doc, None)) - {fname}
                        if ident.match(n) and n not in classes)
        cb, cf = function_chunks(fb, others), function_chunks(ff, others)
        for g in others:
            if cb.get(g) != cf.get(g):
                a, b = cb.get(g) or [], cf.get(g) or []
                i = next((k for k, (x, y) in enumerate(zip(a, b)) if x != y), min(len(a), len(b)))
                fail("a2:sibling-changed:%s:%s" % (job["what"], job["key"]),
                     "%s=%r set only on %s changes the wrapper of sibling %s: %r vs %r"
                     % (job["key"], job["value"], fname, g, a[i:i + 1], b[i:i + 1]))
                break
        if fb != ff and others:
            out["nontrivial"].append(("a2", name, job["key"], fname))
            out["sample"] = dict(relation="a2", lib=name, setting={job["key"]: job["value"]}, on=fname,
                                 siblings=others, chunks={g: len(cb.get(g) or []) for g in others})
    elif kind == "b":
        m = job["model"]
        m2, n = move_attrs(m)
        ra = _run(smallgen.to_yaml(m), [], name)
        rb = _run(smallgen.to_yaml(m2), [], name)
        compare(ra, rb, "inline attributes vs attrs:/fattrs:", "b:attrs")
        if n:
            out["nontrivial"].append(("b", name, n))
            out["sample"] = dict(relation="b", lib=name, moved=n, yaml=smallgen.to_yaml(m2)[:600])
    elif kind == "c":
        doc = meta.load(job["yaml"])
        opts = job["opts"]
        A = meta.with_options(doc, dict(opts)) if opts else copy.deepcopy(doc)
        argvB = list(job["argv"])
        for i, (k, v) in enumerate(opts):
            sv = str(v)
            if isinstance(v, bool) and (len(name) + i) % 2 == 0:
                sv = sv.lower()       # both documented spellings: true/True, false/False
            argvB += ["--option", "%s=%s" % (k, sv)]
        B = copy.deepcopy(doc)
        if job.get("language"):
            A["language"] = job["language"]
            B.pop("language", None)
            argvB += ["--language", job["language"]]
        ra = _run(meta.dump(A), job["argv"], name)
        rb = _run(meta.dump(B), argvB, name)
        if compare(ra, rb, "YAML options %r language %r vs command line" % (opts, job.get("language")), "c:cli"):
            out["nontrivial"].append(("c", name, repr(opts), job.get("language")))
            out["sample"] = dict(relation="c", lib=name, options=opts, language=job.get("language"))
    elif kind == "a3":
        # a block inside a block: the outer block's setting reaches the declarations of the inner one
        doc = meta.load(job["yaml"])
        i, j = job["span"]
        for p_, n_, _l in meta.walk_decls(doc):
            if meta.decl_kind(n_) == "variable" and i <= p_[0] < j:
                out["skipped"] = 1      # generated getters / setters: see a1
                return out
        A = copy.deepcopy(doc)
        lst = A["declarations"]
        inner = {"block": True, "declarations": lst[i:j]}
        outer = {"block": True, "declarations": [inner], ("options" if job["what"] == "option" else "format"): {job["key"]: job["value"]}}
        lst[i:j] = [outer]
        B = doc
        for p in functions_under(doc, None):
            if i <= p[0] < j:
                B = set_on(B, p, job["what"], job["key"], job["value"])
        ra, rb = _run(meta.dump(A), job["argv"], name), _run(meta.dump(B), job["argv"], name)
        if compare(ra, rb, "%s %s=%r on a block around a block (declarations %d..%d) vs on each function"
                   % (job["what"], job["key"], job["value"], i, j), "a3:%s:%s" % (job["what"], job["key"])):
            base = _run(meta.dump(doc), job["argv"], name)
            out["runs"] += 1
            if base.status == "ok" and files_of(base) != files_of(ra):
                out["nontrivial"].append(("a3", name, job["key"], i, j))
    elif kind == "d":
        doc = meta.load(job["yaml"])
        B = copy.deepcopy(doc)
        cpath = job.get("cpath")
        lst = B["declarations"] if cpath is None else meta.get_node(B, tuple(cpath))["declarations"]
        i, j = job["span"]
        blk = {"block": True, "declarations": lst[i:j]}
        lst[i:j] = [blk]
        ra = _run(meta.dump(doc), job["argv"], name)
        rb = _run(meta.dump(B), job["argv"], name)
        compare(ra, rb, "declarations %d..%d of %s wrapped in an empty block" % (
            i, j, "the library" if cpath is None else meta.get_node(doc, tuple(cpath))["decl"]), "d:block")
        out["nontrivial"].append(("d", name, i, j))
        out["sample"] = dict(relation="d", lib=name, span=[i, j])
    elif kind == "e2":
        _e2_job(job, out, fail)
    elif kind == "e":
        work = tempfile.mkdtemp(prefix="vf14_", dir=core.scratch_root())
        try:
            for sub in ("a", "b"):
                os.makedirs(os.path.join(work, sub, "out"))
            ypath = job["path"]
            ra = shroud_run.run_argv(["--outdir", "out", "--path", corpus.INPUT, ypath], cwd=os.path.join(work, "a"))
            res = shroud_run.in_child(_call_create_wrapper, (ypath, "out", [corpus.INPUT]), cwd=os.path.join(work, "b"))
            out["runs"] += 2
            fa = shroud_run.read_tree(os.path.join(work, "a", "out"))
            fb = shroud_run.read_tree(os.path.join(work, "b", "out"))
            if ra.status != "ok":
                fail("e:cli-fails", ra.describe())
            elif res["status"] != "ok":
                fail("e:create_wrapper-fails", "create_wrapper raises %s: %s" % (res.get("exc_type"), res.get("exc_msg")))
            else:
                d = meta.byte_diff(fa, fb)
                if d:
                    fail("e:differs", "create_wrapper output differs from the command line: %s %s" % d[0])
                la = sorted(os.path.basename(x) for x in (res.get("extra") or {}).get("cfiles", []))
                want = sorted(f for f in fa if f.endswith((".c", ".cpp", ".h", ".hpp")) and not f.startswith(("py", "lua")))
                if res.get("extra") is None:
                    fail("e:no-config", "create_wrapper did not return the config with the list of files")
                out["nontrivial"].append(("e", name))
                out["sample"] = dict(relation="e", lib=name, files=len(fa))
        finally:
            shutil.rmtree(work, ignore_errors=True)
    return out


def _e2_job(job, out, fail):
    """create_wrapper vs command line for a library whose YAML names splicer files (top-level 'splicer:' list),
    no search path given to either, the current directory not the YAML file's directory; the files exist in
    both directories with different contents (whichever is found, both entry points must find the same)."""
    work = tempfile.mkdtemp(prefix="vf14e_", dir=core.scratch_root())
    try:
        proj = os.path.join(work, "proj")
        os.makedirs(proj)
        doc = meta.load(job["yaml"])
        doc["splicer"] = {"c": ["user_c.c"], "f": ["user_f.f"]}
        ypath = os.path.join(proj, job["name"] + ".yaml")
        open(ypath, "w").write(meta.dump(doc))
        where = job["where"]          # 'both' | 'cwd'
        for d, tag in ((proj, "PROJECT"), (os.path.join(work, "a"), "BUILD"), (os.path.join(work, "b"), "BUILD")):
            os.makedirs(os.path.join(d, "out") if d != proj else d, exist_ok=True)
            if d == proj and where == "cwd":
                continue
            open(os.path.join(d, "user_c.c"), "w").write(
                "// splicer begin C_definitions\nint vf_from_%s_c;\n// splicer end C_definitions\n"
                "// splicer begin CXX_definitions\nint vf_from_%s_cxx;\n// splicer end CXX_definitions\n" % (tag, tag))
            open(os.path.join(d, "user_f.f"), "w").write(
                "! splicer begin module_top\ninteger :: vf_from_%s\n! splicer end module_top\n" % tag)
        rel = os.path.join("..", "proj", job["name"] + ".yaml")
        ra = shroud_run.run_argv(["--outdir", "out", rel], cwd=os.path.join(work, "a"))
        res = shroud_run.in_child(_call_create_wrapper, (rel, "out", None), cwd=os.path.join(work, "b"))
        out["runs"] += 2
        fa = shroud_run.read_tree(os.path.join(work, "a", "out"))
        fb = shroud_run.read_tree(os.path.join(work, "b", "out"))
        a_ok, b_ok = ra.status == "ok", res["status"] == "ok"
        if a_ok != b_ok:
            fail("e2:status-differs", "command line: %s ; create_wrapper: %s %s" % (
                ra.describe(), res["status"], (res.get("exc_msg") or "")[:300]))
        elif a_ok:
            d = meta.byte_diff(fa, fb)
            if d:
                fail("e2:differs", "create_wrapper output differs from the command line (splicer files %s): %s %s" % ((where,) + tuple(d[0])))
            out["nontrivial"].append(("e2", job["name"], where))
            out["sample"] = dict(relation="e2", lib=job["name"], where=where, files=len(fa))
    finally:
        shutil.rmtree(work, ignore_errors=True)


def _call_create_wrapper(path, outdir, search):
    import shroud
    import shroud.main
    fn = getattr(shroud, "create_wrapper", None) or shroud.main.create_wrapper
    cfg = fn(path, outdir=outdir, path=search)
    return dict(cfiles=list(cfg.cfiles), ffiles=list(cfg.ffiles))


@st.composite
def a_jobs(draw, name, text, argv):
    doc = meta.load(text)
    what = draw(st.sampled_from(["option", "option", "format"]))
    key, value = draw(st.sampled_from(FUNC_OPTIONS if what == "option" else FUNC_FORMATS))
    conts = containers(doc)
    jobs = []
    c = draw(st.sampled_from(conts))
    jobs.append(dict(kind="a1", name=name, yaml=text, argv=argv, what=what, key=key, value=value,
                     container=list(c) if c is not None else None))
    fns = functions_under(doc, None)
    if len(fns) >= 2:
        # prefer a function the setting can act on (string / pointer settings on string / pointer functions)
        if key in STRING_KEYS:
            pref = [p for p in fns if re.search(r"char|string", meta.get_node(doc, p)["decl"])]
        elif key in POINTER_KEYS:
            pref = [p for p in fns if "*" in meta.get_node(doc, p)["decl"]]
        else:
            pref = []
        f = draw(st.sampled_from(pref if pref and draw(st.integers(0, 3)) else fns))
        jobs.append(dict(kind="a2", name=name, yaml=text, argv=argv, what=what, key=key, value=value,
                         f=list(f)))
    return jobs


def run(ctx):
    quick = ctx.tier == "quick"
    ctx.rule = ("Hypothesis-generated libraries (and corpus entries for c/d/e) x relation instance: a1 (setting, container), "
                "a2 (setting, two functions), b (library with inline attributes), c (option subset / language), "
                "d (span wrapped in a block), e (corpus file through create_wrapper); non-trivial = the customisation "
                "changes the output w.r.t. the baseline (a1, a2), at least one attribute moved (b), always for c, d, e; "
                "distinct by (relation, library, instance)")
    ctx.assumptions = [
        "relation a uses only the curated function-scoped options/format fields listed in vf/props/c14.py; options also "
        "read at container level (debug, doxygen, literalinclude, wrap_*, line lengths, flatten_namespace) legitimately "
        "differ and are not used",
        ".json debug dumps and .log files are excluded: they record where an option was written and YAML line numbers",
        "b writes rank/len/charlen as YAML integers (as docs/input.rst does) and every other value as text",
    ]
    nlib = 40 if quick else 200
    models = smallgen.sample_models(ctx.seed, nlib)
    jobs = []
    for i, m in enumerate(models):
        text = smallgen.to_yaml(m)
        name = m["library"]
        for js in smallgen.sample(a_jobs(name, text, []), ctx.seed * 31 + i, 3 if quick else 10):
            jobs.extend(js)
        # systematic part of a2: a string-related option on the first of several string functions
        doc0 = meta.load(text)
        sfun = [p for p in functions_under(doc0, None) if re.search(r"char|string", meta.get_node(doc0, p)["decl"])]
        if len(sfun) >= 2:
            for key, value in FUNC_OPTIONS:
                if key in ("F_CFI", "F_create_bufferify_function", "F_string_len_trim"):
                    jobs.append(dict(kind="a2", name=name, yaml=text, argv=[], what="option", key=key, value=value,
                                     f=list(sfun[0])))
        # systematic part of a1: settings on a class template vs on each of its members (the members are cloned
        # for every instantiation)
        for cpath, node, _l in meta.walk_decls(doc0):
            if meta.decl_kind(node) == "template" and functions_under(doc0, cpath):
                for what, key, value in (("option", "F_force_wrapper", True), ("option", "C_force_wrapper", True),
                                         ("option", "F_string_len_trim", False), ("format", "C_result", "rvx")):
                    jobs.append(dict(kind="a1", name=name, yaml=text, argv=[], what=what, key=key, value=value,
                                     container=list(cpath)))
        jobs.append(dict(kind="b", name=name, model=with_name_attrs(m)))
        if i % 3 == 0:
            jobs.append(dict(kind="e2", name=name, yaml=text, where=["both", "cwd"][(i // 3) % 2]))
        # c
        for opts_lang in smallgen.sample(st.tuples(st.lists(st.sampled_from(CLI_OPTIONS), min_size=1, max_size=3,
                                                            unique_by=lambda kv: kv[0]),
                                                   st.sampled_from([None, None, m["language"]])),
                                         ctx.seed * 37 + i, 2 if quick else 5):
            opts, lang = opts_lang
            if m["language"] == "c":
                opts = [kv for kv in opts if kv[0] not in ("wrap_lua",)]
            jobs.append(dict(kind="c", name=name, yaml=text, argv=[], opts=[list(kv) for kv in opts], language=lang))
        if i < 4:
            # (the template-valued options in turn: a few draws leave them out)
            tv = [kv for kv in CLI_OPTIONS if isinstance(kv[1], str) and "{" in kv[1]]
            jobs.append(dict(kind="c", name=name, yaml=text, argv=[], opts=[list(tv[i % len(tv)])], language=None))
        nd = len(m["decls"])
        for span in smallgen.sample(st.integers(0, nd - 1).flatmap(lambda a: st.tuples(st.just(a), st.integers(a + 1, nd))),
                                    ctx.seed * 41 + i, 1 if quick else 3):
            jobs.append(dict(kind="d", name=name, yaml=text, argv=[], span=list(span)))
        # a3: nested blocks with a function-scoped setting on the outer one
        nd0 = len(doc0.get("declarations") or [])
        if nd0 >= 1:
            for (span, kv) in smallgen.sample(st.tuples(
                    st.integers(0, nd0 - 1).flatmap(lambda a: st.tuples(st.just(a), st.integers(a + 1, nd0))),
                    st.sampled_from([("option",) + x for x in FUNC_OPTIONS] + [("format",) + x for x in FUNC_FORMATS])),
                    ctx.seed * 47 + i, 2 if quick else 5):
                # (a class that was forward declared earlier takes format / options from its initial decl only -
                #  struct.rst - so a span holding the re-opening decl is not a place for a setting)
                tops = doc0["declarations"]
                cnames = [decl_name(d_["decl"]) for d_ in tops if meta.decl_kind(d_) == "class"]
                twice = set(n for n in cnames if cnames.count(n) > 1)
                if any(meta.decl_kind(d_) == "class" and decl_name(d_["decl"]) in twice for d_ in tops[span[0]:span[1]]):
                    continue            # forward declaration or re-opening decl in the span
                jobs.append(dict(kind="a3", name=name, yaml=text, argv=[], span=list(span), what=kv[0], key=kv[1], value=kv[2]))
        # ... and inside a namespace or class (ast.BlockNode: "Blocks can be added to a LibraryNode,
        # NamespaceNode or ClassNode")
        # (systematic for class templates: every instantiation clones what the block holds)
        for cpath, node, _l in meta.walk_decls(doc0):
            if meta.decl_kind(node) == "template" and len(node.get("declarations") or []) >= 2:
                nn = len(node["declarations"])
                jobs.append(dict(kind="d", name=name, yaml=text, argv=[], span=[1, nn], cpath=list(cpath)))
                jobs.append(dict(kind="d", name=name, yaml=text, argv=[], span=[nn - 1, nn], cpath=list(cpath)))
        for cpath in [p for p, n, _l in meta.walk_decls(doc0) if meta.decl_kind(n) in ("class", "namespace")
                      and n.get("declarations")][:2 if quick else 6]:
            nn = len(meta.get_node(doc0, cpath)["declarations"])
            for span in smallgen.sample(st.integers(0, nn - 1).flatmap(lambda a: st.tuples(st.just(a), st.integers(a + 1, nn))),
                                        ctx.seed * 43 + i, 1 if quick else 2):
                jobs.append(dict(kind="d", name=name, yaml=text, argv=[], span=list(span), cpath=list(cpath)))
    import random  # deterministic corpus selection from VERIF_SEED
    rnd = random.Random(ctx.seed)
    ents = [e for e in corpus.entries() if not e.cmdline]
    for e in (rnd.sample(ents, 6) if quick else ents):
        jobs.append(dict(kind="e", name=e.name, path=e.path))
        doc = meta.load(e.text())
        nd = len(doc.get("declarations") or [])
        if nd >= 2:
            a = rnd.randrange(0, nd - 1)
            jobs.append(dict(kind="d", name=e.yaml[:-5], yaml=e.text(), argv=e.argv(), span=[a, rnd.randrange(a + 1, nd + 1)]))
        opts = rnd.sample(CLI_OPTIONS, 2)
        if len(set(k for k, _ in opts)) == 2:
            jobs.append(dict(kind="c", name=e.yaml[:-5], yaml=e.text(), argv=e.argv(), opts=[list(kv) for kv in opts],
                             language=None))
    for out in core.pool_map(_job, jobs):
        ctx.case(n=out["runs"], label="rel:" + out["kind"])
        for nt in out["nontrivial"]:
            ctx.case(n=0, nontrivial=nt, label="nontrivial:" + out["kind"])
        if out["sample"]:
            ctx.case(n=0, sample=out["sample"])
        for key, case, note in out["fails"]:
            ctx.failure(key, case, expected="byte-identical wrapper files", observed=note, note=note)


def replay(ctx, rec):
    out = _job(rec["case"])
    for key, case, note in out["fails"]:
        ctx.failure(key, case, observed=note, note=note)
