"""C12 - user splicer code is carried into the named blocks unchanged.

Per library: a harvest run collects every splicer block of every output
language.  Hypothesis then draws a case = subset of blocks, a body per block,
the way each body is supplied (splicer file on the command line, splicer: file
list in the YAML + --path, splicer_code, declaration-level splicer), junk text
outside the markers.  Oracle:
 (1) regenerated block == supplied body, line by line, modulo leading
     indentation and trailing blanks
 (2) every block that was not supplied keeps its harvest content
 (3) the declaration-level splicer wins over a file / splicer_code body
 (4) feeding every generated file back as a splicer file reproduces every block
"""
import copy
import os
import re
import shutil
import tempfile

from hypothesis import strategies as st

from .. import core, corpus, lex, meta, shroud_run, smallgen

LEVEL = "exploration"

_BEGIN = re.compile(r"splicer begin (\S+)")
_END = re.compile(r"splicer end (\S+)")

COMMENT = {"c": "//", "f": "!", "py": "//", "lua": "//"}
SUFFIX = {"c": ".c", "f": ".f", "py": ".py", "lua": ".lua"}


def file_lang(fname, first_line=""):
    k = lex.file_kind(fname)
    if k == "f":
        return "f"
    if k == "c":
        base = os.path.basename(fname)
        if base.startswith("py"):
            return "py"
        if base.startswith("lua"):
            return "lua"
        return "c"
    return None


def blocks_of(files):
    """{(lang, name): (file, [lines])}; names occurring more than once per language are
    reported in the second result."""
    res = {}
    dup = set()
    for fn in sorted(files):
        lang = file_lang(fn)
        if lang is None:
            continue
        cur = None
        buf = []
        for ln in files[fn].decode("utf-8", "replace").split("\n"):
            if cur is None:
                m = _BEGIN.search(ln)
                if m:
                    cur = m.group(1)
                    buf = []
            else:
                m = _END.search(ln)
                if m and m.group(1) == cur:
                    key = (lang, cur)
                    if key in res:
                        dup.add(key)
                    res[key] = (fn, buf)
                    cur = None
                else:
                    buf.append(ln)
    for k in dup:
        res.pop(k, None)
    return res, dup


def norm(lines):
    """The tolerance the property states: leading indentation and trailing blanks."""
    return [l.strip(" ") for l in lines]


# ---------------------------------------------------------------------------
# bodies

CODE_ALPHA = "abcXYZ019 _;,.()[]{}<>=*&%!:'\"/\\|?~$+-#@^"


def _ok_line(s):
    if "splicer" in s:
        return False
    t = s
    if t[:1] in "#@^+-":        # formatting metacharacter in column one: outside the property's domain
        return False
    if "\t" in t or "\f" in t or "\r" in t:
        return False
    return True


@st.composite
def body_line(draw, lang, allow_known=False):
    kind = draw(st.sampled_from(["code", "code", "code", "indented", "blank", "braces", "percent", "long"]))
    if kind == "blank":
        return ""
    core_text = draw(st.text(alphabet=CODE_ALPHA, min_size=1, max_size=40))
    if kind == "braces":
        core_text = "{ " + core_text + " {0} {name} }}"
    elif kind == "percent":
        core_text = "%s %d " + core_text + " %"
    elif kind == "long":
        core_text = core_text * 5
    lead = "    " * draw(st.integers(0, 2)) if kind == "indented" else ""
    trail = draw(st.sampled_from(["", "", "  "]))
    s = core_text.strip(" ")
    if not s:
        s = "x"
    if s[0] in "#@^+-":
        s = "x" + s
    # a trailing '+' is a known finding (generated separately); keep it out of the main search
    while s.endswith("+"):
        s = s[:-1] + ";"
    return lead + s + trail


@st.composite
def body(draw, lang):
    n = draw(st.integers(0, 6))
    if n == 0:
        return []           # an empty user body is a body too: it replaces the generated default by nothing
    lines = [draw(body_line(lang)) for _ in range(n)]
    lines = [l for l in lines if _ok_line(l)] or ["ok();"]
    return lines


@st.composite
def case_strategy(draw, names_by_lang, decl_blocks):
    """names_by_lang: {lang: [block names]}; decl_blocks: {(lang, name): decl path} for function body blocks."""
    supplied = []
    langs = [l for l in sorted(names_by_lang) if names_by_lang[l]]
    nblocks = draw(st.integers(1, 5))
    seen = set()
    for _ in range(nblocks):
        lang = draw(st.sampled_from(langs))
        name = draw(st.sampled_from(names_by_lang[lang]))
        if (lang, name) in seen:
            continue
        seen.add((lang, name))
        ways = ["cmdfile", "yamlfile", "code"]
        if (lang, name) in decl_blocks and lang in ("c", "f", "py"):
            ways += ["decl", "decl+file"]
        way = draw(st.sampled_from(ways))
        b = draw(body(lang))
        # marker lines of a splicer file may be indented (they are in every generated file); the body
        # lines keep their own, independent indentation
        rec = dict(lang=lang, name=name, way=way, body=b, mindent=draw(st.sampled_from([0, 0, 2, 4, 8, 11])))
        if way == "decl+file":
            rec["loser"] = draw(body(lang))
        supplied.append(rec)
    junk = draw(st.lists(st.text(alphabet=CODE_ALPHA, max_size=30), max_size=3))
    junk = [j for j in junk if "splicer" not in j]
    return dict(supplied=supplied, junk=junk)


def build_inputs(doc, case, decl_blocks):
    """-> (doc, extra_files, argv_extra)"""
    doc = copy.deepcopy(doc)
    files = {}     # relpath under in/ -> text
    argv = []
    per_file = {}  # (way, lang) -> list of (name, body)
    for s in case["supplied"]:
        way = s["way"]
        if way in ("cmdfile", "yamlfile"):
            per_file.setdefault((way, s["lang"]), []).append((s["name"], s["body"], s.get("mindent", 0)))
        elif way == "code":
            sc = doc.setdefault("splicer_code", {}).setdefault(s["lang"], {})
            parts = s["name"].split(".")
            for p in parts[:-1]:
                sc = sc.setdefault(p, {})
            sc[parts[-1]] = list(s["body"])
        elif way in ("decl", "decl+file"):
            path = decl_blocks[(s["lang"], s["name"])]
            node = meta.get_node(doc, tuple(path))
            node.setdefault("splicer", {})[s["lang"]] = list(s["body"])
            if way == "decl+file":
                per_file.setdefault(("cmdfile", s["lang"]), []).append((s["name"], s["loser"], s.get("mindent", 0)))
    for (way, lang), items in sorted(per_file.items()):
        com = COMMENT[lang]
        text = []
        for j in case["junk"]:
            text.append(j)
        for name, b, mindent in items:
            text.append("%s%s splicer begin %s" % (" " * mindent, com, name))
            text.extend(b)
            text.append("%s%s splicer end %s" % (" " * mindent, com, name))
            text.append("text between blocks is ignored")
        fn = "user_%s_%s%s" % (way, lang, SUFFIX[lang])
        files[fn] = "\n".join(text) + "\n"
        if way == "cmdfile":
            argv.append(os.path.join("in", fn))
        else:
            doc.setdefault("splicer", {}).setdefault(lang, []).append(fn)
    return doc, files, argv


def run_with(doc, files, argv_pre, argv_files, name):
    """Run Shroud; splicer files given on the command line come before the YAML file."""
    work = tempfile.mkdtemp(prefix="vf12_", dir=core.scratch_root())
    try:
        ind = os.path.join(work, "in")
        os.makedirs(ind)
        os.makedirs(os.path.join(work, "out"))
        for fn, text in files.items():
            full = os.path.join(ind, fn)
            os.makedirs(os.path.dirname(full), exist_ok=True)
            with open(full, "w") as fp:
                fp.write(text)
        with open(os.path.join(ind, name + ".yaml"), "w") as fp:
            fp.write(meta.dump(doc))
        av = list(argv_pre) + ["--outdir", "out", "--logdir", "out", "--path", "in"] + list(argv_files) + \
            [os.path.join("in", name + ".yaml")]
        r = shroud_run.run_argv(av, cwd=work)
        r.files = shroud_run.read_tree(os.path.join(work, "out"))
        return r
    finally:
        shutil.rmtree(work, ignore_errors=True)


def function_decl_blocks(doc, blocks):
    """Map (lang, block name) of plain function bodies to the declaration path, for
    functions whose (unique) name identifies the block 'function.<name>'."""
    res = {}
    names = {}
    allnames = {}
    for path, node, _ in meta.walk_decls(doc):
        if meta.decl_kind(node) == "function":
            nm0 = _decl_name(node["decl"])
            allnames[nm0] = allnames.get(nm0, 0) + 1
    for path, node, _ in meta.walk_decls(doc):
        if meta.decl_kind(node) == "function" and len(path) == 1 and "cxx_template" not in node and \
                allnames.get(_decl_name(node["decl"])) == 1 and \
                "fortran_generic" not in node and "default_arg_suffix" not in node and "=" not in node["decl"]:
            nm = _decl_name(node["decl"])
            names.setdefault(nm, []).append(path)
    for nm, paths in names.items():
        if len(paths) != 1 or not re.match(r"^[A-Za-z_]\w*$", nm):
            continue
        for lang in ("c", "f", "py"):
            for cand in ("function." + nm, "function." + _un_camel(nm)):
                if (lang, cand) in blocks:
                    res[(lang, cand)] = list(paths[0])
                    break
    return res


def _decl_name(decl):
    head = decl.split("(")[0].replace("*", " ").replace("&", " ").split()
    return head[-1] if head else ""


def _un_camel(text):
    # docs: CamelCase -> camel_case (documented in util.un_camel's docstring)
    out = []
    for i, ch in enumerate(text):
        if ch.isupper():
            if (i - 1 > 0 and text[i - 1].islower()) or (i - 1 > 0 and i + 1 < len(text) and text[i + 1].islower()):
                out.append("_" + ch.lower())
            else:
                out.append(ch.lower())
        else:
            out.append(ch)
    return "".join(out)


def prepare(doc):
    """Subject preparation shared by run and replay: the library's own YAML splicers are
    removed, splicer comments forced on.  Returns (doc, has_member_variables)."""
    doc.pop("splicer", None)
    doc.pop("splicer_code", None)
    doc = meta.with_options(doc, {"show_splicer_comments": True})
    has_vars = False
    for _p, node, _l in meta.walk_decls(doc):
        # a splicer written on the declaration wins by documentation: remove the corpus' own ones
        node.pop("splicer", None)
        d = node.get("decl") or ""
        if meta.decl_kind(node) == "variable" or (d.strip().startswith("struct") and "{" in d):
            has_vars = True
    return doc, has_vars


def user_blocks(hblocks, has_vars):
    if has_vars:
        # getter/setter bodies of member variables are forced by Shroud itself (it supplies
        # them as the declaration-level splicer of the generated accessor): not user blocks
        return {k: v for k, v in hblocks.items() if not re.search(r"\.method\.(get|set)_?", k[1])}
    return hblocks


_FBLOCK = re.compile(r"^(?:namespace\.(?P<scope>[^.]+)\.)?(?:class\.(?P<cls>\w+)\.)?(?P<kind>function|method)\.(?P<fn>\w+)$")


def scope_problems(doc, hblocks):
    """(5) the scope part of a block name says where the declaration is: a block of a function or method
    declared in namespaces a { b { ... } } is named namespace.a::b.[class.C.]function|method.<name> in every
    output language (that is how a user addresses it in a splicer file or in splicer_code)."""
    where = {}      # lower-case underscore name -> set of (scope, class)
    for path, node, _l in meta.walk_decls(doc):
        if meta.decl_kind(node) != "function":
            continue
        nm = _decl_name(node["decl"])
        scope, cls = [], None
        flat = False
        for k in range(1, len(path)):
            anc = meta.get_node(doc, tuple(path[:k]))
            d = anc.get("decl", "")
            if any(kk.endswith("flatten_namespace") and vv for kk, vv in (anc.get("options") or {}).items()):
                flat = True         # documented option: the namespace does not contribute a scope
            if d.startswith("namespace "):
                scope.append(d.split()[1])
            else:
                mm = re.search(r"\b(class|struct)\s+(\w+)", d)
                if mm:
                    cls = mm.group(2)
        for key in (nm.lower(), _un_camel(nm).lower()):
            where.setdefault(key, set()).add(("::".join(scope) or None, cls) if not flat else ("?", "?"))
    problems = []
    for (lang, name), (fn, _lines) in sorted(hblocks.items()):
        m = _FBLOCK.match(name)
        if not m or lang == "lua":
            continue            # (the Lua module is flat: recorded finding of C08/C18)
        f = m.group("fn").lower()
        cands = [w for k, w in where.items() if f == k or f.startswith(k + "_")]
        if len(cands) != 1 or len(cands[0]) != 1:
            continue                    # overloaded / ambiguous names: not judged
        scope, cls = next(iter(cands[0]))
        if scope == "?":
            continue
        # (class names of template instantiations differ from the declared name: only in-class or not is compared)
        if m.group("scope") != scope or bool(m.group("cls")) != bool(cls):
            problems.append(("block-scope-wrong:" + lang,
                             "block %s in %s: the function is declared in namespace %s%s" % (
                                 name, fn, scope or "(library level)", (", class " + cls) if cls else "")))
    return problems


def _job(job):
    name, text, argv, ncases, seed_value, feedback = job
    out = dict(name=name, runs=0, fails=[], nontrivial=[], samples=[], blocks=0)
    doc, has_vars = prepare(meta.load(text))
    base_case = dict(lib=name, yaml=meta.dump(doc), argv=argv)
    harvest = run_with(doc, {}, argv, [], name)
    out["runs"] += 1
    if harvest.status != "ok":
        out["fails"].append(("harvest-fails:" + name, dict(base_case, case=None), "harvest run fails: " + harvest.describe()))
        return out
    hblocks, dups = blocks_of(harvest.files)
    hblocks = user_blocks(hblocks, has_vars)
    out["blocks"] = len(hblocks)
    names_by_lang = {}
    for (lang, nm) in sorted(hblocks):
        names_by_lang.setdefault(lang, []).append(nm)
    decl_blocks = function_decl_blocks(doc, hblocks)
    for key, note in scope_problems(doc, hblocks):
        out["fails"].append((key, dict(base_case, case="scope"), note))
    cases = smallgen.sample(case_strategy(names_by_lang, decl_blocks), seed_value, ncases) if hblocks else []
    # every block of the library at once, each with a body of its own, through splicer_code and through one splicer
    # file per language (a few drawn blocks per case leave rarely generated block names - destructors, type
    # tables, class-level blocks - unvisited for a given way of supplying them)
    if hblocks:
        for way in ("code", "cmdfile"):
            recs = []
            for k, (lang, nm) in enumerate(sorted(hblocks)):
                b = ["call vf_user_%d(%d)" % (k, k), "  continue"] if lang == "f" else ["vf_user_%d(%d);" % (k, k), "  /* %s */" % way]
                recs.append(dict(lang=lang, name=nm, way=way, body=b, mindent=0))
            cases.append(dict(supplied=recs, junk=[]))
    # a declaration-level Fortran splicer on a function that needs no Fortran wrapper otherwise: the code must
    # still appear (input.rst: "A splicer can be added after the decl line. This splicer takes priority")
    forced = forced_f_cases(doc, hblocks, seed_value)
    for case in forced[:2]:
        d2 = copy.deepcopy(doc)
        meta.get_node(d2, tuple(case["path"])).setdefault("splicer", {})["f"] = list(case["body"])
        r = run_with(d2, {}, argv, [], name)
        out["runs"] += 1
        cdesc = dict(base_case, case=dict(forced_f=case))
        if r.status != "ok":
            out["fails"].append(("case-fails:" + (r.exc_type or ""), cdesc, "Shroud stops with a declaration-level f splicer: " + r.describe()))
            continue
        blocks, _d = blocks_of(r.files)
        got = [v[1] for k, v in blocks.items() if k[0] == "f" and k[1].split(".")[-2:] in (["function", c] for c in case["names"])]
        if not any(norm(g) == norm(case["body"]) for g in got):
            out["fails"].append(("decl-f-splicer-dropped", cdesc,
                                 "declaration-level f splicer of %s appears in no Fortran block (blocks found: %d)" % (case["fname"], len(got))))
    for case in cases:
        d2, files, av_files = build_inputs(doc, case, decl_blocks)
        r = run_with(d2, files, argv, av_files, name)
        out["runs"] += 1
        cdesc = dict(base_case, case=case)
        if r.status != "ok":
            out["fails"].append(("case-fails:" + (r.exc_type or ""), cdesc, "Shroud stops with user splicers: " + r.describe()))
            continue
        problems = judge(case, hblocks, r.files)
        langs = set(s["lang"] for s in case["supplied"])
        if len(case["supplied"]) >= 2 and len(langs) >= 2:
            out["nontrivial"].append((name, repr([(s["lang"], s["name"], s["way"], s["body"]) for s in case["supplied"]])))
            if not out["samples"]:
                out["samples"].append(dict(lib=name, supplied=case["supplied"]))
        for key, note in problems:
            out["fails"].append((key, cdesc, note))
    if feedback:
        problems = judge_feedback(doc, harvest, hblocks, argv, name)
        out["runs"] += 1
        out["nontrivial"].append((name, "feedback", len(hblocks)))
        for key, note in problems:
            out["fails"].append((key, dict(base_case, case="feedback"), note))
    return out


def forced_f_cases(doc, hblocks, seed_value):
    """Unique plain library-level functions without a Fortran function block in the harvest."""
    res = []
    if not any(k[0] == "f" for k in hblocks):
        return res          # the Fortran wrapper is off for this run
    have = set(k[1].split(".")[-1].lower() for k in hblocks if k[0] == "f")
    counts = {}
    for path, node, _l in meta.walk_decls(doc):
        if meta.decl_kind(node) == "function":
            counts[_decl_name(node["decl"])] = counts.get(_decl_name(node["decl"]), 0) + 1
    for path, node, _l in meta.walk_decls(doc):
        if meta.decl_kind(node) != "function" or len(path) != 1:
            continue
        nm = _decl_name(node["decl"])
        if counts.get(nm) != 1 or not re.match(r"^[A-Za-z_]\w*$", nm) or "splicer" in node or "cxx_template" in node or \
                "fortran_generic" in node or "=" in node["decl"] or (node.get("options") or {}).get("wrap_fortran") is False:
            continue
        names = [nm, _un_camel(nm), nm.lower(), _un_camel(nm).lower()]
        if any(h == n.lower() or h.startswith(n.lower() + "_") for n in names for h in have) or ".." in node["decl"]:
            continue            # has Fortran blocks already (possibly one per assumed-rank / generic variant)
        res.append(dict(path=list(path), fname=nm, names=names, body=["! user code %d" % seed_value, "call user_%s()" % nm.lower()]))
    return res


def judge(case, hblocks, files):
    problems = []
    blocks, _d = blocks_of(files)
    supplied = {(s["lang"], s["name"]): s for s in case["supplied"]}
    decl_forced = any(s["way"].startswith("decl") for s in case["supplied"])
    for key, s in supplied.items():
        if key not in blocks:
            problems.append(("supplied-block-missing:" + s["way"],
                             "block %s (%s) supplied via %s does not exist in the regenerated output" % (key[1], key[0], s["way"])))
            continue
        got = blocks[key][1]
        if norm(got) != norm(s["body"]):
            what = "decl-level splicer lost against file" if s["way"] == "decl+file" and norm(got) == norm(s.get("loser", [])) else "differs"
            i = next((k for k, (a, b) in enumerate(zip(norm(got), norm(s["body"]))) if a != b), min(len(got), len(s["body"])))
            problems.append(("supplied-body-altered:%s:%s" % (s["way"], key[0]),
                             "block %s (%s) via %s %s at line %d: supplied %r, regenerated %r"
                             % (key[1], key[0], s["way"], what, i + 1, s["body"][i:i + 1], got[i:i + 1])))
    for key, (fn, lines) in hblocks.items():
        if key in supplied:
            continue
        if key not in blocks:
            if not decl_forced:
                problems.append(("unsupplied-block-missing", "block %s (%s) disappeared" % (key[1], key[0])))
            continue
        if blocks[key][1] != lines:
            problems.append(("unsupplied-block-changed:" + key[0],
                             "block %s (%s) was not supplied but changed: %r -> %r" % (key[1], key[0], lines[:3], blocks[key][1][:3])))
    return problems


def judge_feedback(doc, harvest, hblocks, argv, name):
    """Feed every generated source back as a splicer file."""
    problems = []
    d2 = copy.deepcopy(doc)
    files = {}
    cmd = []
    for fn, data in sorted(harvest.files.items()):
        lang = file_lang(fn)
        if lang is None:
            continue
        rel = os.path.join("fb", fn)
        files[rel] = data.decode("utf-8", "replace")
        if lang in ("c", "f"):
            cmd.append(os.path.join("in", rel))
        else:
            d2.setdefault("splicer", {}).setdefault(lang, []).append(rel)
    r = run_with(d2, files, argv, cmd, name)
    if r.status != "ok":
        return [("feedback-fails:" + (r.exc_type or ""), "feeding the generated files back as splicers fails: " + r.describe())]
    blocks, _d = blocks_of(r.files)
    for key, (fn, lines) in sorted(hblocks.items()):
        if key not in blocks:
            problems.append(("feedback-block-missing", "block %s (%s) missing after feedback" % (key[1], key[0])))
            continue
        if norm(blocks[key][1]) != norm(lines):
            got = blocks[key][1]
            i = next((k for k, (a, b) in enumerate(zip(norm(got), norm(lines))) if a != b), min(len(got), len(lines)))
            problems.append(("feedback-not-fixed-point:" + key[0],
                             "block %s (%s) changes when the generated file is fed back: line %d %r -> %r"
                             % (key[1], key[0], i + 1, lines[i:i + 1], got[i:i + 1])))
            break
    return problems


# known-finding probes: classes generated separately from the main search
PROBES = [
    ("trailing-plus", ["x = a +", "    b;"]),
    ("interior-tab", ["int\tx;"]),
]


def _probe_job(job):
    key, body_lines = job
    doc = meta.load("library: probe\ncxx_header: probe.hpp\ndeclarations:\n- decl: void func1(int a)\n")
    files = {"user.c": "// splicer begin function.func1\n" + "\n".join(body_lines) + "\n// splicer end function.func1\n"}
    r = run_with(doc, files, [], [os.path.join("in", "user.c")], "probe")
    if r.status != "ok":
        return key, "run fails: " + r.describe()
    blocks, _ = blocks_of(r.files)
    got = blocks.get(("c", "function.func1"), (None, None))[1]
    if got is None or norm(got) != norm(body_lines):
        return key, "supplied %r, regenerated %r" % (body_lines, got)
    return key, None


def run(ctx):
    quick = ctx.tier == "quick"
    ctx.rule = ("library (generated or corpus entry, own YAML splicers removed) x Hypothesis case (1-5 blocks over all "
                "output languages, body of 1-6 lines over a code-like alphabet incl. braces, %, quotes, blank and indented "
                "lines, trailing blanks; supplied via command-line splicer file, YAML splicer: list + --path, splicer_code "
                "or the declaration; junk outside markers) + one feedback run per library; non-trivial = >= 2 blocks in "
                ">= 2 languages, or a feedback run; distinct by (library, supplied blocks and bodies)")
    ctx.assumptions = ["body lines do not start (column one) with the formatting metacharacters # @ ^ + -, as the property states",
                       "lines with interior tabs or ending in '+' are generated as separate probes (known findings), not in the main search",
                       "block names occurring twice in one language of one library are skipped (ambiguous)"]
    jobs = []
    nlib = 30 if quick else 150
    ncase = 10 if quick else 30
    for i, m in enumerate(smallgen.sample_models(ctx.seed, nlib)):
        jobs.append((m["library"], smallgen.to_yaml(m), [], ncase, ctx.seed * 101 + i, True))
    import random  # deterministic corpus selection from VERIF_SEED
    rnd = random.Random(ctx.seed)
    ents = [e for e in corpus.entries() if e.name not in ("none", "include")]
    if quick:
        ents = rnd.sample(ents, 20)
    for i, e in enumerate(ents):
        jobs.append((e.yaml[:-5], e.text(), e.argv(), 5 if quick else 12, ctx.seed * 103 + i, True))
    nblocks = 0
    for out in core.pool_map(_job, jobs):
        ctx.case(n=out["runs"], label="run")
        nblocks += out["blocks"]
        for nt in out["nontrivial"]:
            ctx.case(n=0, nontrivial=nt)
        for s in out["samples"]:
            ctx.case(n=0, sample=s)
        for key, case, note in out["fails"]:
            ctx.failure(key, case, expected="see property C12", observed=note, note=note)
    ctx.extra["splicer_blocks_harvested"] = nblocks
    for key, why in core.pool_map(_probe_job, PROBES):
        ctx.case(label="probe")
        if why:
            ctx.failure("probe:" + key, dict(probe=key), expected="body carried unchanged", observed=why,
                        note="user line class %s: %s" % (key, why))


def replay(ctx, rec):
    c = rec["case"]
    if "probe" in c:
        body_lines = dict(PROBES)[c["probe"]]
        key, why = _probe_job((c["probe"], body_lines))
        if why:
            ctx.failure("probe:" + key, c, observed=why, note=why)
        return
    doc, has_vars = prepare(meta.load(c["yaml"]))
    harvest = run_with(doc, {}, c["argv"], [], c["lib"])
    hblocks, _ = blocks_of(harvest.files)
    hblocks = user_blocks(hblocks, has_vars)
    if c["case"] == "feedback":
        for key, note in judge_feedback(doc, harvest, hblocks, c["argv"], c["lib"]):
            ctx.failure(key, c, observed=note, note=note)
        return
    if c["case"] is None:
        return
    if c["case"] == "scope":
        for key, note in scope_problems(doc, hblocks):
            ctx.failure(key, c, observed=note, note=note)
        return
    if isinstance(c["case"], dict) and "forced_f" in c["case"]:
        case = c["case"]["forced_f"]
        d2 = copy.deepcopy(doc)
        meta.get_node(d2, tuple(case["path"])).setdefault("splicer", {})["f"] = list(case["body"])
        r = run_with(d2, {}, c["argv"], [], c["lib"])
        blocks, _d = blocks_of(r.files) if r.status == "ok" else ({}, None)
        got = [v[1] for k, v in blocks.items() if k[0] == "f" and k[1].split(".")[-2:] in (["function", x] for x in case["names"])]
        if not any(norm(g) == norm(case["body"]) for g in got):
            note = "declaration-level f splicer of %s appears in no Fortran block" % case["fname"]
            ctx.failure("decl-f-splicer-dropped", c, observed=note, note=note)
        return
    decl_blocks = function_decl_blocks(doc, hblocks)
    d2, files, av_files = build_inputs(doc, c["case"], decl_blocks)
    r = run_with(d2, files, c["argv"], av_files, c["lib"])
    if r.status != "ok":
        ctx.failure(rec["key"], c, observed=r.describe(), note=r.describe())
        return
    for key, note in judge(c["case"], hblocks, r.files):
        ctx.failure(key, c, observed=note, note=note)
