"""C15 - wrapper selection is honoured and the file lists match what was written.

Per library: reference runs with one language group on at a time and five
distinct directories give the file-name set of every kind; Hypothesis-drawn
cases (flag combination, directory assignment, per-declaration overrides) are
then judged:
 (1) a language that is off for the library writes nothing,
 (2) flipping python / lua leaves every C and Fortran file byte-identical,
 (3) --cfiles / --ffiles name exactly the C/C++ sources and Fortran files
     present in the C-Fortran directory,
 (4) every file lies in the directory designated for its kind,
 (5) a declaration switched off for a language is absent from that language's
     output, one that is on is present.
"""
import copy
import os
import re
import shutil
import tempfile

from hypothesis import strategies as st

from .. import core, corpus, lex, meta, shroud_run, smallgen

LEVEL = "exploration"

KINDS = ["c_fortran", "python", "lua", "yaml"]
DIR_OPT = {"c_fortran": "--outdir-c-fortran", "python": "--outdir-python", "lua": "--outdir-lua",
           "yaml": "--outdir-yaml"}


def run_case(workdir, tag, doc, name, argv, flags, dirs, want_lists=True):
    """dirs: dict kind->subdir name or None (falls back to outdir); dirs['outdir'], dirs['logdir'].
    Returns (Result, {dirname: {file: bytes}}, cfiles, ffiles)."""
    root = os.path.join(workdir, tag)
    os.makedirs(root)
    d2 = meta.with_options(doc, {"wrap_c": flags["c"], "wrap_fortran": flags["fortran"],
                                 "wrap_python": flags["python"], "wrap_lua": flags["lua"]})
    ind = os.path.join(root, "in")
    os.makedirs(ind)
    with open(os.path.join(ind, name + ".yaml"), "w") as fp:
        fp.write(meta.dump(d2))
    used = set()
    av = list(argv)
    for k, opt in [("outdir", "--outdir"), ("logdir", "--logdir")] + sorted(DIR_OPT.items()):
        sub = dirs.get(k)
        if sub is None:
            continue
        os.makedirs(os.path.join(root, sub), exist_ok=True)
        used.add(sub)
        av += [opt, sub]
    if want_lists:
        av += ["--cfiles", "cfiles.txt", "--ffiles", "ffiles.txt"]
    av.append(os.path.join("in", name + ".yaml"))
    r = shroud_run.run_argv(av, cwd=root)
    tree = {}
    for sub in sorted(used | {"."}):
        p = os.path.join(root, sub)
        files = {}
        for f in sorted(os.listdir(p)):
            full = os.path.join(p, f)
            if os.path.isfile(full) and not (sub == "." and f in ("cfiles.txt", "ffiles.txt")):
                files[f] = open(full, "rb").read()
        tree[sub] = files
    lists = {}
    for nm in ("cfiles.txt", "ffiles.txt"):
        p = os.path.join(root, nm)
        lists[nm] = open(p).read() if os.path.exists(p) else None
    return r, tree, lists


def eff_dir(dirs, kind):
    """Directory (relative to the run root) a kind must land in."""
    if kind in ("outdir", "logdir"):
        return dirs.get(kind) or "."
    return dirs.get(kind) or dirs.get("outdir") or "."


ALLSEP = {"outdir": "o_main", "logdir": "o_log", "c_fortran": "o_cf", "python": "o_py", "lua": "o_lua",
          "yaml": "o_yaml"}


def reference_names(workdir, doc, name, argv, has_lua, has_py, tolerant=False):
    """Name sets per kind from single-group runs with all directories distinct."""
    ref = {}
    problems = []
    groups = [("c", dict(c=True, fortran=False, python=False, lua=False)),
              ("cf", dict(c=True, fortran=True, python=False, lua=False))]
    if has_py:
        groups.append(("python", dict(c=False, fortran=False, python=True, lua=False)))
    if has_lua:
        groups.append(("lua", dict(c=False, fortran=False, python=False, lua=True)))
    for g, flags in groups:
        r, tree, lists = run_case(workdir, "ref_" + g, doc, name, argv, flags, ALLSEP)
        if r.status != "ok":
            # a corpus file that keeps wrap_python / wrap_lua off in its own options is not written for that
            # wrapper (generic.yaml: "Detected assumed-rank dimension"): the language is outside the domain
            # of that entry; for generated libraries (admission flags) the failure is a violation
            if not (tolerant and g in ("python", "lua") and not (doc.get("options") or {}).get("wrap_" + g)):
                problems.append(("ref-run-failed:" + g, "reference run %s fails: %s" % (g, r.describe())))
            ref[g] = None
            continue
        own = {"c": "o_cf", "cf": "o_cf", "python": "o_py", "lua": "o_lua"}[g]
        ref[g] = set(tree[own])
        # the kinds are learnt from these runs; what is independent of them: with Fortran off no Fortran source
        # is written (and none is listed), whatever the declarations ask for
        if g == "c":
            for f in sorted(tree[own]):
                if lex.file_kind(f) == "f":
                    problems.append(("off-language-wrote:fortran-in-c-only-run",
                                     "wrap_c on and wrap_fortran off for the library, but the Fortran source %s was written" % f))
            if (lists.get("ffiles.txt") or "").strip():
                problems.append(("off-language-listed:fortran-in-c-only-run",
                                 "wrap_fortran is off for the library but --ffiles lists %s" % lists["ffiles.txt"].strip()))
        if g == "python":
            ref["python_main"] = set(tree["o_main"])
        ref.setdefault("yaml", set()).update(tree["o_yaml"])
        # (1)+(4) on the reference run itself: nothing outside own dir, yaml dir, log dir, main (setup.py)
        for sub, files in tree.items():
            if sub in (own, "o_yaml", "o_log"):
                continue
            if sub == "o_main" and g == "python":
                # only the build script (which names the sources by path) belongs to --outdir
                for f in files:
                    if f != "setup.py":
                        problems.append(("misplaced:python-only:main",
                                         "with only python on, %s was written into --outdir instead of --outdir-python" % f))
                continue
            for f in files:
                problems.append(("misplaced:%s-only:%s" % (g, sub),
                                 "with only %s switched on, file %s was written into the %s directory" % (g, f, sub)))
        # (3)
        problems += check_lists(lists, tree["o_cf"], "o_cf", "%s-only" % g)
    return ref, problems


def check_lists(lists, cf_files, cf_dir, what):
    problems = []
    want_c = sorted(os.path.join(cf_dir, f) for f in cf_files
                    if f.endswith((".c", ".cpp", ".cxx", ".cc", ".h", ".hpp", ".hh", ".hxx")))
    want_f = sorted(os.path.join(cf_dir, f) for f in cf_files if f.endswith((".f", ".f90", ".F", ".F90")))
    for nm, want in (("cfiles.txt", want_c), ("ffiles.txt", want_f)):
        txt = lists.get(nm)
        if txt is None:
            problems.append(("list-missing:" + nm, "%s: %s was not written" % (what, nm)))
            continue
        got = sorted(os.path.normpath(x) for x in txt.split())
        if len(got) != len(set(got)):
            problems.append(("list-duplicates:" + nm, "%s: %s names a file twice: %s" % (what, nm, got)))
        if sorted(set(got)) != [os.path.normpath(x) for x in want]:
            problems.append(("list-mismatch:" + nm, "%s: %s lists %s but the directory holds %s" % (what, nm, got, want)))
    return problems


def judge_case(ref, case, r, tree, lists, twin_tree):
    flags, dirs = case["flags"], case["dirs"]
    problems = []
    allowed = {}  # dir -> set of names allowed there

    def allow(d, names):
        allowed.setdefault(d, set()).update(names or ())
    eff = dict(flags)       # languages that are on for the library or for at least one declaration
    for on in (case.get("switch_on") or {}).values():
        for l in on:
            eff[l] = True
    flags = eff
    if flags["c"]:
        allow(eff_dir(dirs, "c_fortran"), ref["cf"] if flags["fortran"] else ref["c"])
    if flags["python"] and ref.get("python") is not None:
        allow(eff_dir(dirs, "python"), ref["python"])
        allow(eff_dir(dirs, "outdir"), ref.get("python_main", ()))
    if flags["lua"] and ref.get("lua") is not None:
        allow(eff_dir(dirs, "lua"), ref["lua"])
    allow(eff_dir(dirs, "yaml"), ref.get("yaml", ()))
    logd = eff_dir(dirs, "logdir")
    for sub, files in tree.items():
        for f in files:
            if sub == logd and f.endswith((".log", ".json")):
                continue
            if f in allowed.get(sub, ()):
                continue
            k = kind_of(ref, f)
            if k in ("python", "lua", "c", "cf") and not flags_on(flags, k):
                problems.append(("off-language-wrote:%s" % k, "%s is switched off for the library but %s/%s was written" % (k, sub, f)))
            else:
                problems.append(("wrong-directory:%s" % k, "%s (kind %s) was written into %s, designated: %s" % (
                    f, k, sub, designated(dirs, k))))
    # completeness when nothing is overridden per declaration
    if not case["overrides"] and not case.get("switch_on") and not case.get("ns_off") and not case.get("block_off"):
        for d, names in allowed.items():
            for f in sorted(names):
                if f not in tree.get(d, {}):
                    problems.append(("file-missing", "%s expected in %s was not written" % (f, d)))
    cfd = eff_dir(dirs, "c_fortran")
    # when directories are shared, only C/Fortran-kind names count for the lists
    cf_names = {f: b for f, b in tree.get(cfd, {}).items() if kind_of(ref, f) in ("c", "cf")}
    problems += check_lists(lists, cf_names, cfd if cfd != "." else "", "case")
    # (2)
    if twin_tree is not None:
        a = {f: b for f, b in tree.get(cfd, {}).items() if kind_of(ref, f) in ("c", "cf")}
        b = {f: b2 for f, b2 in twin_tree.get(cfd, {}).items() if kind_of(ref, f) in ("c", "cf")}
        for f, why in meta.byte_diff(a, b):
            problems.append(("c-fortran-changed-by-python-lua-toggle", "%s: %s" % (f, why)))
    return problems


def flags_on(flags, k):
    return {"c": flags["c"], "cf": flags["c"], "python": flags["python"], "lua": flags["lua"]}.get(k, True)


def designated(dirs, k):
    return eff_dir(dirs, {"c": "c_fortran", "cf": "c_fortran", "python": "python", "lua": "lua",
                          "yaml": "yaml"}.get(k, "outdir"))


def kind_of(ref, f):
    for k in ("c", "cf", "python", "lua", "yaml"):
        if ref.get(k) and f in ref[k]:
            return k
    if f in (ref.get("python_main") or ()):
        return "python"
    return "unknown"


# (5) presence of declarations

def names_present(files, name):
    """True if `name` (case-insensitive) occurs in any code token of the files."""
    low = name.lower()
    for f, data in files.items():
        toks = lex.code_tokens(f, data)
        if toks is None:
            continue
        for t in toks:
            if low in t.lower():
                return True
    return False


def fortran_procedures(files):
    """Names of module procedures (function/subroutine statements outside interface blocks)."""
    names = set()
    for f, data in files.items():
        depth = 0
        for st_ in lex.f_statements(data.decode("utf-8", "replace")):
            if st_[0] == "interface" or (st_[0] == "abstract" and len(st_) > 1 and st_[1] == "interface"):
                depth += 1
            elif st_[0] == "end" and len(st_) > 1 and st_[1] == "interface":
                depth -= 1
            elif st_[0] == "endinterface":
                depth -= 1
            elif depth == 0:
                for i, t in enumerate(st_[:-1]):
                    if t in ("function", "subroutine") and (i == 0 or st_[i - 1] != "end"):
                        names.add(st_[i + 1])
                        break
    return names


def check_presence(case, ref, tree, model_funcs, language="c++", ns_members=None):
    problems = []
    flags, dirs = case["flags"], case["dirs"]
    lang_files = {}
    cfd = tree.get(eff_dir(dirs, "c_fortran"), {})
    lang_files["c"] = {f: b for f, b in cfd.items() if kind_of(ref, f) in ("c", "cf") and lex.file_kind(f) == "c"}
    lang_files["fortran"] = {f: b for f, b in cfd.items() if lex.file_kind(f) == "f"}
    lang_files["python"] = {f: b for f, b in tree.get(eff_dir(dirs, "python"), {}).items() if kind_of(ref, f) == "python"}
    lang_files["lua"] = {f: b for f, b in tree.get(eff_dir(dirs, "lua"), {}).items() if kind_of(ref, f) == "lua"}
    switch_on = case.get("switch_on") or {}
    for fname, admitted in model_funcs:
        off = list(case["overrides"].get(fname, []))
        won = switch_on.get(fname, [])
        ns_level = set()
        for nsname, langs in (case.get("ns_off") or {}).items():
            if fname in (ns_members or {}).get(nsname, ()):
                off += [l for l in langs if l not in off and l not in won]
                ns_level.update(langs)
        for bkey, langs in (case.get("block_off") or {}).items():
            if bkey == "func " + fname:
                off += [l for l in langs if l not in off]
        # effective per-declaration state: library level, switched off or switched on for this declaration
        eon = {l: (flags[l] and l not in off) or (not flags[l] and l in won) for l in ("c", "fortran", "python", "lua")}
        for lang in ("c", "fortran", "python", "lua"):
            if not admitted.get(lang, True):
                continue
            how = "wrap_%s: %s on the declaration" % (lang, lang in won) if (lang in off or lang in won) else \
                "library level wrap_%s: %s" % (lang, flags[lang])
            if eon[lang]:
                # (a C library needs no C wrapper for a plain function: nothing to find)
                if not (lang == "c" and language == "c") and not names_present(lang_files[lang], fname):
                    problems.append(("declaration-on-but-absent:" + lang,
                                     "%s is wrapped for %s (%s) but does not occur in the %s output" % (fname, lang, how, lang)))
            elif not lang_files[lang]:
                continue
            elif lang == "fortran" and eon["c"] and ("fortran" not in ns_level or
                                                      any("fortran" in v for v in switch_on.values())):
                # (a namespace switched off for Fortran has no module at all - unless a declaration in it is
                #  switched on again, which brings the module and with it the interfaces of its C wrappers back)
                # the C wrapper is on: its bind(C) interface legitimately remains in the
                # module; what must be gone is the Fortran wrapper procedure itself
                if fname.lower() in fortran_procedures(lang_files[lang]):
                    problems.append(("declaration-off-but-present:fortran-procedure",
                                     "%s is not wrapped for Fortran (%s) but module procedure %s exists" % (fname, how, fname.lower())))
            elif names_present(lang_files[lang], fname):
                problems.append(("declaration-off-but-present:" + lang,
                                 "%s is not wrapped for %s (%s) but occurs in the %s output" % (fname, lang, how, lang)))
    return problems


def check_block(case, ref, tree, block_members):
    """What a block switches off is absent from that language's output: the function itself, or every method of
    the class (C and Fortran are only switched off together here, so no bind(C) interface may remain either)."""
    problems = []
    flags, dirs = case["flags"], case["dirs"]
    cfd = tree.get(eff_dir(dirs, "c_fortran"), {})
    lang_files = {"c": {f: b for f, b in cfd.items() if kind_of(ref, f) in ("c", "cf") and lex.file_kind(f) == "c"},
                  "fortran": {f: b for f, b in cfd.items() if lex.file_kind(f) == "f"},
                  "python": {f: b for f, b in tree.get(eff_dir(dirs, "python"), {}).items() if kind_of(ref, f) == "python"},
                  "lua": {f: b for f, b in tree.get(eff_dir(dirs, "lua"), {}).items() if kind_of(ref, f) == "lua"}}
    for bkey, off in (case.get("block_off") or {}).items():
        for lang in off:
            if not flags[lang]:
                continue
            for m in block_members.get(bkey, ()):
                if name_in_code(lang_files[lang], m):
                    problems.append(("block-off-but-present:" + lang,
                                     "%s is inside a block with wrap_%s: False, but %s occurs in the %s output" % (bkey, lang, m, lang)))
                    break
    return problems


def _job(job):
    name, text, argv, cases, model_funcs = job[:5]
    corpus_entry = bool(job[5]) if len(job) > 5 else False
    ns_members = job[6] if len(job) > 6 else {}
    block_members = job[7] if len(job) > 7 else {}
    doc = meta.load(text)
    out = dict(name=name, runs=0, fails=[], nontrivial=[], samples=[])
    work = tempfile.mkdtemp(prefix="vf15_", dir=core.scratch_root())
    try:
        has_py = True
        has_lua = (doc.get("language", "c++") != "c")
        ref, problems = reference_names(work, doc, name, argv, has_lua, has_py, tolerant=corpus_entry)
        out["runs"] += 2 + int(has_py) + int(has_lua)
        for key, note in problems:
            out["fails"].append((key, dict(lib=name, yaml=text, argv=argv, case=None, corpus_entry=corpus_entry), note))
        if ref.get("c") is None or ref.get("cf") is None:
            return out
        for i, case in enumerate(cases):
            if case["flags"]["lua"] and not has_lua:
                case["flags"]["lua"] = False
            if (case["flags"]["python"] and ref.get("python") is None) or (case["flags"]["lua"] and ref.get("lua") is None):
                continue
            if case.get("switch_on"):
                drop = [l for l in ("python", "lua") if ref.get(l) is None]
                case["switch_on"] = {k: [l for l in v if l not in drop] for k, v in case["switch_on"].items()}
                case["switch_on"] = {k: v for k, v in case["switch_on"].items() if v}
            d2 = doc
            for fname, off in case["overrides"].items():
                for path, node, _ in meta.walk_decls(d2):
                    if node.get("decl") and _decl_name(node["decl"]) == fname:
                        d2 = meta.with_options(d2, {"wrap_" + l: False for l in off}, path)
                        break
            for nsname, off in (case.get("ns_off") or {}).items():
                for path, node, _ in meta.walk_decls(d2):
                    if node.get("decl", "").split() == ["namespace", nsname]:
                        d2 = meta.with_options(d2, {"wrap_" + l: False for l in off}, path)
                        break
            for fname, on in (case.get("switch_on") or {}).items():
                for path, node, _ in meta.walk_decls(d2):
                    if node.get("decl") and _decl_name(node["decl"]) == fname:
                        d2 = meta.with_options(d2, {"wrap_" + l: True for l in on}, path)
                        break
            for bkey, off in (case.get("block_off") or {}).items():
                bkind, bname = bkey.split()
                d2 = copy.deepcopy(d2)
                for k, node in enumerate(d2["declarations"]):
                    dtext = node.get("decl", "")
                    if (bkind == "class" and dtext.split()[:2] == ["class", bname]) or (bkind == "func" and "(" in dtext and _decl_name(dtext) == bname):
                        d2["declarations"][k] = {"block": True, "options": {"wrap_" + l: False for l in off}, "declarations": [node]}
                        break
            r, tree, lists = run_case(work, "case%d" % i, d2, name, argv, case["flags"], case["dirs"])
            out["runs"] += 1
            cdesc = dict(lib=name, yaml=text, argv=argv, case=case, corpus_entry=corpus_entry, ns_members=ns_members,
                         model_funcs=model_funcs, block_members=block_members)
            if r.status != "ok":
                out["fails"].append(("case-failed", cdesc, "Shroud stops: " + r.describe()))
                continue
            twin_tree = None
            if case["flags"]["c"]:
                tf = dict(case["flags"])
                tf["python"] = not tf["python"] if ref.get("python") is not None else False
                tf["lua"] = (not tf["lua"]) if (has_lua and ref.get("lua") is not None) else False
                r2, twin_tree, _l2 = run_case(work, "twin%d" % i, d2, name, argv, tf, case["dirs"], want_lists=False)
                out["runs"] += 1
                if r2.status != "ok":
                    twin_tree = None
            problems = judge_case(ref, case, r, tree, lists, twin_tree)
            if model_funcs:
                problems += check_presence(case, ref, tree, model_funcs, doc.get("language", "c++"), ns_members)
            problems += check_block(case, ref, tree, block_members)
            nt = (sum(case["flags"].values()) not in (0, 4)) or len(set(v for v in case["dirs"].values() if v)) > 1
            if nt:
                out["nontrivial"].append((name, repr(sorted(case["flags"].items())), repr(sorted(case["dirs"].items())),
                                          repr(sorted(case["overrides"].items()))))
                if not out["samples"]:
                    out["samples"].append(dict(lib=name, case=case, files={k: sorted(v) for k, v in tree.items()}))
            for key, note in problems:
                out["fails"].append((key, cdesc, note))
            shutil.rmtree(os.path.join(work, "case%d" % i), ignore_errors=True)
            shutil.rmtree(os.path.join(work, "twin%d" % i), ignore_errors=True)
    finally:
        shutil.rmtree(work, ignore_errors=True)
    return out


def _decl_name(decl):
    head = decl.split("(")[0].replace("*", " ").replace("&", " ").split()
    return head[-1] if head else ""


@st.composite
def case_strategy(draw, func_names, ovl_names=None, deep_names=None, ns_names=None, block_names=None):
    c = draw(st.booleans())
    flags = dict(c=c, fortran=c and draw(st.booleans()), python=draw(st.booleans()), lua=draw(st.booleans()))
    pool = ["d0", "d1", "d2", "d3", "d4"]
    dirs = {"outdir": draw(st.sampled_from(["d0", "d0", None])), "logdir": draw(st.sampled_from(["d0", "dlog", None]))}
    for k in KINDS:
        dirs[k] = draw(st.sampled_from(pool + [None, None]))
    overrides = {}
    switch_on = {}
    pool_names = list(func_names) + list(ovl_names or [])
    if pool_names and draw(st.booleans()):
        for fn in draw(st.lists(st.sampled_from(pool_names), max_size=3, unique=True)):
            overrides[fn] = draw(st.sampled_from([["python"], ["lua"], ["fortran"], ["c", "fortran"], ["python", "lua"]]))
    # one member of an overload set without C/Fortran wrapper (it stays visible to Python / Lua only)
    if ovl_names and draw(st.booleans()):
        overrides[draw(st.sampled_from(sorted(ovl_names)))] = draw(st.sampled_from([["c", "fortran"], ["c", "fortran"], ["fortran"], ["python", "lua"]]))
    # a declaration switched ON for a language that is off at library level (any namespace depth)
    offl = [l for l in (["c"], ["c", "fortran"], ["python"], ["lua"]) if not flags[l[0]] and not (l == ["c", "fortran"] and flags["c"])]
    if func_names and offl and draw(st.booleans()):
        # (functions two or more namespaces deep are preferred: the flag has to travel up through every level)
        pool2 = [f for f in func_names if f in (deep_names or ())] if deep_names and draw(st.booleans()) else func_names
        for fn in draw(st.lists(st.sampled_from(pool2 or func_names), min_size=1, max_size=2, unique=True)):
            if fn not in overrides:
                switch_on[fn] = draw(st.sampled_from(offl))
    # a whole namespace switched off for a language (the option is inherited by everything inside)
    ns_off = {}
    if ns_names and draw(st.integers(0, 2)) == 0:
        ns_off[draw(st.sampled_from(sorted(ns_names)))] = draw(st.sampled_from([["fortran"], ["fortran"], ["python"], ["lua"], ["c", "fortran"]]))
    # a library-level declaration (a class with everything in it, or a function) inside a 'block: True' entry whose
    # options switch a language off (input.rst: a block only carries options / format for the declarations in it)
    block_off = {}
    cands = [b for b in sorted(block_names or ()) if b.split()[-1] not in overrides and b.split()[-1] not in switch_on]
    if cands and draw(st.integers(0, 2)) == 0:
        block_off[draw(st.sampled_from(cands))] = draw(st.sampled_from([["python"], ["lua"], ["c", "fortran"], ["python", "lua"], ["python"]]))
    return dict(flags=flags, dirs=dirs, overrides=overrides, switch_on=switch_on, ns_off=ns_off, block_off=block_off)


def model_function_names(model):
    """Free functions with unique names and their per-language admission."""
    res = []
    seen = {}
    for path, f in smallgen.walk_functions(model):
        if f["kind"] != "func" or not all(isinstance(x, int) for x in path):
            continue
        seen[f["name"]] = seen.get(f["name"], 0) + 1
    for path, f in smallgen.walk_functions(model):
        # free functions at library level or inside (nested) namespaces
        if f["kind"] != "func" or not all(isinstance(x, int) for x in path) or seen[f["name"]] != 1:
            continue
        if f.get("template") or f.get("generic"):
            continue
        # a function returning std::string / std::vector by value gets no plain C wrapper
        # (documented: "unable to create C wrapper for function returning ... instance")
        res.append((f["name"], dict(python=f.get("py", True), lua=f.get("lua", True),
                                    c=f.get("rrow") not in ("RV", "RS3"))))
    return res


def deep_function_names(model):
    """Free functions declared two or more namespaces deep."""
    res = []

    def rec(decls, depth):
        for n in decls:
            if n["kind"] == "func" and depth >= 2:
                res.append(n["name"])
            elif n["kind"] == "namespace":
                rec(n["decls"], depth + 1)
    rec(model["decls"], 0)
    return res


def namespace_members(model):
    """{namespace name: [names of free functions anywhere below it]} for every namespace of the model."""
    res = {}

    def rec(decls, above):
        for n in decls:
            if n["kind"] == "func":
                for a in above:
                    res[a].append(n["name"])
            elif n["kind"] == "namespace":
                res.setdefault(n["name"], [])
                rec(n["decls"], above + [n["name"]])
    rec(model["decls"], [])
    return res


def block_candidates(model):
    """{'class X' | 'func f': [names of the wrapped functions in it]} for library-level classes (with methods, not
    mentioned by any other declaration) and uniquely named plain functions."""
    import json
    res = {}
    counts = {}
    for _p, f in smallgen.walk_functions(model):
        counts[f.get("name")] = counts.get(f.get("name"), 0) + 1
    for i, n in enumerate(model["decls"]):
        if n["kind"] == "class" and n.get("methods"):
            others = json.dumps([m for j, m in enumerate(model["decls"]) if j != i])
            if re.search(r"\b%s\b" % re.escape(n["name"]), others):
                continue
            names = [m["name"] for m in n["methods"]]
            if all(counts.get(x) == 1 for x in names):
                res["class " + n["name"]] = names
        elif n["kind"] == "func" and counts.get(n["name"]) == 1 and not n.get("template") and not n.get("generic"):
            res["func " + n["name"]] = [n["name"]]
    return res


def name_in_code(files, name):
    """`name` occurs in a code token and is not just the beginning of a longer numbered name (fn1 in fn12)."""
    pat = re.compile(re.escape(name.lower()) + r"(?![0-9])")
    for f, data in files.items():
        toks = lex.code_tokens(f, data)
        for t in toks or ():
            if pat.search(t.lower()):
                return True
    return False


def overload_names(model):
    """C++ names shared by several free functions (overload sets)."""
    seen = {}
    for path, f in smallgen.walk_functions(model):
        if f["kind"] == "func" and all(isinstance(x, int) for x in path):
            seen[f["name"]] = seen.get(f["name"], 0) + 1
    return sorted(n for n, k in seen.items() if k > 1)


def _two_wrappers(y1, d1, y2, d2):
    """Child body: two libraries wrapped one after the other through the documented programmatic entry
    point; -> the file lists the second call reports."""
    import shroud
    import shroud.main
    shroud.main.create_wrapper(y1, outdir=d1)
    cfg = shroud.main.create_wrapper(y2, outdir=d2)
    return dict(cfiles=list(cfg.cfiles), ffiles=list(cfg.ffiles))


def _seq_job(job):
    """create_wrapper() "Return config instance. It has list of files created": the lists of the second of two
    calls in one process name exactly the files of that call (property: 'the files written in this run')."""
    idx, name1, text1, flags1, name2, text2, flags2 = job
    out = dict(name="%s+%s" % (name1, name2), runs=2, fails=[], nontrivial=[(name1, name2, repr(flags1), repr(flags2))], samples=[])
    work = tempfile.mkdtemp(prefix="vf15s_", dir=core.scratch_root())
    try:
        paths = []
        for k, (nm, text, flags) in enumerate(((name1, text1, flags1), (name2, text2, flags2))):
            doc = meta.with_options(meta.load(text), {"wrap_c": flags["c"], "wrap_fortran": flags["fortran"], "wrap_python": False,
                                                      "wrap_lua": False})
            yp = os.path.join(work, "in%d_%s.yaml" % (k, nm))
            with open(yp, "w") as fp:
                fp.write(meta.dump(doc))
            od = os.path.join(work, "out%d" % k)
            os.makedirs(od)
            paths += [yp, od]
        res = shroud_run.in_child(_two_wrappers, tuple(paths), cwd=work)
        cdesc = dict(sequence=dict(first=dict(name=name1, yaml=text1, flags=flags1), second=dict(name=name2, yaml=text2, flags=flags2)))
        if res["status"] != "ok":
            out["fails"].append(("sequence-failed", cdesc, "two create_wrapper calls in one process stop: %s" % (res.get("exc_text") or res.get("stderr", ""))[-600:]))
            return out
        od = paths[3]
        files = sorted(os.listdir(od))
        lists = {"cfiles.txt": " ".join(res["extra"]["cfiles"]), "ffiles.txt": " ".join(res["extra"]["ffiles"])}
        for key, note in check_lists(lists, files, od, "second of two create_wrapper() calls (%s after %s)" % (name2, name1)):
            out["fails"].append(("sequence:" + key, cdesc, note))
        if not flags2["fortran"] and res["extra"]["ffiles"]:
            out["fails"].append(("sequence:fortran-listed-when-off", cdesc, "Fortran is off in the second call, yet it lists %s" % res["extra"]["ffiles"]))
        out["samples"].append(dict(sequence=[name1, name2], second_lists={k: [os.path.basename(x) for x in v.split()] for k, v in lists.items()}))
    finally:
        shutil.rmtree(work, ignore_errors=True)
    return out


def run(ctx):
    quick = ctx.tier == "quick"
    ctx.rule = ("library (generated with unique function names, or corpus entry) x Hypothesis-drawn case = (wrap_c/"
                "fortran/python/lua combination with fortran only together with c, assignment of --outdir, --logdir "
                "and the four --outdir-* options to up to five directories or unset, per-declaration wrap_* overrides); "
                "kinds of files are learnt from single-language reference runs with all directories distinct; "
                "non-trivial = a mixed flag combination or more than one distinct directory; distinct by (library, case)")
    ctx.assumptions = ["--cfiles is expected to name every C/C++ file (sources and headers) and --ffiles every Fortran "
                       "file present in the C-Fortran directory",
                       "per-declaration overrides switch a language off for a free function or one member of an overload set "
                       "(Fortran together with or without C), or on against the library level for a free function at any "
                       "namespace depth (Fortran only together with C)",
                       "presence of a declaration = its C++ name occurs case-insensitively in a comment-free token"]
    jobs = []
    nlib = 24 if quick else 120
    ncase = 8 if quick else 20
    models = smallgen.sample_models(ctx.seed, nlib, with_python=True, with_lua=True)
    for m in models:
        funcs = model_function_names(m)
        blocks = block_candidates(m)
        cases = smallgen.sample(case_strategy([f for f, _ in funcs], overload_names(m), deep_function_names(m), namespace_members(m), blocks), ctx.seed + len(jobs), ncase)
        # systematic: the first class that can stand in a block, switched off there for one group of languages at
        # a time while everything is on at library level
        cls_keys = [b for b in sorted(blocks) if b.startswith("class ")]
        if cls_keys:
            for off in (["python"], ["c", "fortran"], ["lua"]):
                cases.append(dict(flags=dict(c=True, fortran=True, python=True, lua=True),
                                  dirs=dict({k: None for k in KINDS}, outdir="d0", logdir="d0"),
                                  overrides={}, switch_on={}, ns_off={}, block_off={cls_keys[0]: off}))
        jobs.append((m["library"], smallgen.to_yaml(m), [], cases, funcs, False, namespace_members(m), blocks))
    import random  # deterministic corpus selection from VERIF_SEED
    rnd = random.Random(ctx.seed)
    ents = [e for e in corpus.entries() if e.name not in ("none",) and not _own_overrides(e.text())]
    if quick:
        ents = rnd.sample(ents, 16)
    for e in ents:
        cases = smallgen.sample(case_strategy([]), ctx.seed + len(jobs), 4 if quick else 10)
        jobs.append((e.yaml[:-5], e.text(), _strip_wrap_options(e.argv()), cases, [], True))
    # histories of two in-process calls: the second call's file lists are its own
    seqs = []
    ymodels = [(m["library"], smallgen.to_yaml(m)) for m in models[:(8 if quick else 40)]]
    for i in range(len(ymodels) - 1):
        for f1, f2 in ((dict(c=True, fortran=True), dict(c=True, fortran=False)), (dict(c=True, fortran=True), dict(c=True, fortran=True))):
            seqs.append((len(seqs), ymodels[i][0], ymodels[i][1], f1, ymodels[i + 1][0], ymodels[i + 1][1], f2))
    results = core.pool_map(_job, jobs) + core.pool_map(_seq_job, seqs)
    for out in results:
        ctx.case(n=out["runs"], label="run")
        for nt in out["nontrivial"]:
            ctx.case(n=0, nontrivial=nt)
        for s in out["samples"]:
            ctx.case(n=0, sample=s)
        for key, case, note in out["fails"]:
            ctx.failure(key, case, expected="see property C15", observed=note, note=note)


def _own_overrides(text):
    """A corpus file that switches a wrapper ON for single declarations itself (wrap.yaml) is not used as a
    seed: the cases below set library-level flags and overrides themselves and judge against those."""
    doc = meta.load(text)
    for path, node, _ in meta.walk_decls(doc):
        if any(k.startswith("wrap_") and v for k, v in (node.get("options") or {}).items()):
            return True
    return False


def _strip_wrap_options(argv):
    res = []
    skip = False
    for i, a in enumerate(argv):
        if skip:
            skip = False
            continue
        if a == "--option" and i + 1 < len(argv) and argv[i + 1].split("=")[0].startswith("wrap_"):
            skip = True
            continue
        res.append(a)
    return res


def replay(ctx, rec):
    c = rec["case"]
    if "sequence" in c:
        a, b = c["sequence"]["first"], c["sequence"]["second"]
        out = _seq_job((0, a["name"], a["yaml"], a["flags"], b["name"], b["yaml"], b["flags"]))
        for key, case, note in out["fails"]:
            ctx.failure(key, case, observed=note, note=note)
        return
    cases = [c["case"]] if c.get("case") else []
    funcs = [tuple(x) for x in (c.get("model_funcs") or [])]
    out = _job((c["lib"], c["yaml"], c["argv"], cases, funcs, c.get("corpus_entry", False), c.get("ns_members") or {},
                c.get("block_members") or {}))
    for key, case, note in out["fails"]:
        ctx.failure(key, case, observed=note, note=note)
