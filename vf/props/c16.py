"""C16 - documentation and debug options change comments only.

For a library L (corpus entry or generated), baseline = all five options off;
variants = on/off combinations of debug, doxygen, show_splicer_comments,
--write-version and per-declaration literalinclude, set globally or on drawn
declarations.  Oracle: same set of files, comment-free token streams equal
(independent lexers in vf/lex.py).
"""
import itertools

from hypothesis import strategies as st

from .. import core, corpus, meta, shroud_run, smallgen

LEVEL = "exploration"

GLOBAL_OPTS = ["debug", "doxygen", "show_splicer_comments"]


def apply_variant(doc, var):
    """var = dict(glob={opt: bool}, version=bool, per={path-string: {opt: bool}})"""
    d = meta.with_options(doc, var["glob"])
    for pstr, opts in var["per"].items():
        path = tuple(int(x) for x in pstr.split("."))
        d = meta.with_options(d, opts, path)
    return d


def _job(job):
    name, text, argv, variants = job
    doc = meta.load(text)
    # strip library-level literalinclude (excluded by the property) from the subject
    base_doc = meta.with_options(doc, {"debug": False, "doxygen": False, "show_splicer_comments": False})
    for k in ("literalinclude", "literalinclude2"):
        base_doc["options"].pop(k, None)
    for path, node, _ in meta.walk_decls(base_doc):
        if isinstance(node.get("options"), dict):
            for k in ("literalinclude", "debug", "doxygen", "show_splicer_comments"):
                node["options"].pop(k, None)
    argv = [a for a in argv if a not in ("--write-version", "--nowrite-version")]
    argv = _drop_option(argv, ("literalinclude", "literalinclude2", "debug", "doxygen", "show_splicer_comments"))
    out = dict(name=name, runs=0, fails=[], nontrivial=[], samples=[])
    base = shroud_run.run_yaml(meta.dump(base_doc), ["--nowrite-version"] + argv, name=name)
    out["runs"] += 1
    if base.status != "ok":
        out["fails"].append(("baseline-failed:" + name, dict(lib=name, yaml=text, argv=argv, variant=None),
                             "Shroud stops on the all-off baseline: " + base.describe()))
        return out
    for var in variants:
        vdoc = apply_variant(base_doc, var)
        av = (["--write-version"] if var["version"] else ["--nowrite-version"]) + argv
        r = shroud_run.run_yaml(meta.dump(vdoc), av, name=name)
        out["runs"] += 1
        case = dict(lib=name, yaml=text, argv=argv, variant=var)
        if r.status != "ok":
            out["fails"].append(("variant-failed", case, "Shroud stops with %r: %s" % (var, r.describe())))
            continue
        try:
            diffs = meta.token_diff(base.files, r.files)
        except Exception as e:  # lexer failure = harness problem, reported as such
            out["fails"].append(("HARNESS", case, "lexer: %r" % e))
            continue
        changed = any(base.files.get(f) != r.files.get(f) for f in r.files if not f.endswith((".json", ".log")))
        if changed:
            out["nontrivial"].append((name, repr(sorted(var["glob"].items())), var["version"], repr(sorted(var["per"].items()))))
            if len(out["samples"]) < 1:
                out["samples"].append(dict(lib=name, variant=var, files_changed=sum(
                    1 for f in r.files if base.files.get(f) != r.files[f])))
        for f, why in diffs:
            on = sorted([k for k, v in var["glob"].items() if v] + (["write-version"] if var["version"] else []) +
                        sorted(set(k for o in var["per"].values() for k, v in o.items() if v)))
            out["fails"].append(("code-changed:%s:%s" % (",".join(on), f.split(".")[-1]), case,
                                 "%s: %s (options on: %s)" % (f, why, on)))
            break
    return out


def _drop_option(argv, names):
    res = []
    skip = False
    for i, a in enumerate(argv):
        if skip:
            skip = False
            continue
        if a == "--option" and i + 1 < len(argv) and argv[i + 1].split("=")[0] in names:
            skip = True
            continue
        res.append(a)
    return res


def variants_for(doc, draw_n, seed_value, exhaustive_global):
    """Variant descriptors for one library.  Global combinations are enumerated
    (all 16 x version) when exhaustive_global, else drawn; per-declaration
    placements are drawn by Hypothesis."""
    paths = [(".".join(str(i) for i in p), meta.decl_kind(n)) for p, n, _ in meta.walk_decls(doc)]
    fpaths = [p for p, k in paths if k in ("function", "class", "struct")]
    cpaths = [p for p, k in paths if k in ("class", "function", "namespace", "struct")]
    res = []
    if exhaustive_global:
        for bits in itertools.product([False, True], repeat=4):
            res.append(dict(glob=dict(zip(GLOBAL_OPTS, bits[:3])), version=bits[3], per={}))

    @st.composite
    def var(draw):
        glob = {k: draw(st.booleans()) for k in GLOBAL_OPTS}
        version = draw(st.booleans())
        per = {}
        if fpaths and draw(st.booleans()):
            for p in draw(st.lists(st.sampled_from(fpaths), max_size=6, unique=True)):
                per[p] = {"literalinclude": True}
        if cpaths and draw(st.booleans()):
            for p in draw(st.lists(st.sampled_from(cpaths), max_size=2, unique=True)):
                o = per.setdefault(p, {})
                o[draw(st.sampled_from(GLOBAL_OPTS + ["literalinclude"]))] = draw(st.booleans())
        return dict(glob=glob, version=version, per=per)
    if draw_n:
        res += smallgen.sample(var(), seed_value, draw_n)
    return res


def run(ctx):
    quick = ctx.tier == "quick"
    ctx.rule = ("library (corpus entry or generated) x variant (on/off of debug, doxygen, show_splicer_comments, "
                "--write-version globally; literalinclude and the three options on Hypothesis-drawn declarations); "
                "oracle: same files, equal comment-free token streams vs the all-off baseline; non-trivial = the "
                "variant changed at least one byte of a generated source file; distinct by (library, variant)")
    ctx.assumptions = ["library-level literalinclude/literalinclude2 removed from the subjects (excluded by the property)",
                       "comment removal by vf/lex.py (C/C++, free-form Fortran, '#' comments in setup.py / *_types.yaml)",
                       ".json debug dumps and .log files are not wrapper sources and are not compared"]
    import random  # deterministic selection of corpus entries from VERIF_SEED
    rnd = random.Random(ctx.seed)
    ents = corpus.entries()
    jobs = []
    # every corpus entry at both tiers (the entries differ in which emitters they reach: inheritance, templates,
    # struct-as-class ...); the quick tier compares the all-on variant and four drawn ones per entry
    all_on = dict(glob={k: True for k in GLOBAL_OPTS}, version=True, per={})
    for e in ents:
        doc = meta.load(e.text())
        vs = variants_for(doc, 4 if quick else 24, ctx.seed, not quick)
        jobs.append((e.yaml[:-5], e.text(), e.argv(), ([all_on] if quick else []) + vs))
    for k, (name, text) in enumerate(smallgen.sample_libraries(ctx.seed, 36 if quick else 120)):
        doc = meta.load(text)
        if k % 2 == 0:
            # user code in the documented file-level splicer blocks (input.rst: file_top, module_use, module_top,
            # additional_functions; CXX_definitions / C_definitions): it is code, whatever the comment options say
            doc["splicer_code"] = {
                "f": {"file_top": ["module vf_user_top", "  integer :: vf_top_var = 3", "end module vf_user_top"],
                      "module_use": ["use vf_user_top, only : vf_top_var"],
                      "module_top": ["integer, parameter :: vf_user_param = 42"],
                      "additional_functions": ["subroutine vf_user_sub()", "end subroutine vf_user_sub"]},
                "c": {"CXX_definitions": ["static int vf_user_cxx = 1;"], "C_definitions": ["int vf_user_c(void) { return 2; }"]}}
            text = meta.dump(doc)
        jobs.append((name, text, [], variants_for(doc, 5 if quick else 16, ctx.seed + 1, False)))
    for out in core.pool_map(_job, jobs):
        ctx.case(n=out["runs"], label="run")
        for nt in out["nontrivial"]:
            ctx.case(n=0, nontrivial=nt)
        for s in out["samples"]:
            ctx.case(n=0, sample=s)
        for key, case, note in out["fails"]:
            if key == "HARNESS":
                raise core.HarnessError(note)
            ctx.failure(key, case, expected="token-identical sources", observed=note, note=note)


def replay(ctx, rec):
    c = rec["case"]
    out = _job((c["lib"], c["yaml"], c["argv"], [c["variant"]] if c["variant"] else []))
    for key, case, note in out["fails"]:
        ctx.failure(key, case, observed=note, note=note)
