"""C17 - invalid input is rejected with a diagnostic, never by an internal failure.

A  token level (in-process, forked shards): valid declarations must be accepted;
   single-token mutants, random token sequences and expression strings are
   classified {accepted, diagnostic, internal, hang}; provably ill-formed text
   (text after the terminating ';', unbalanced brackets) must be rejected.
B  attribute level through the whole pipeline (one Shroud run per case):
   every attribute name x value form on functions, arguments, variables, and
   the documented illegal combinations (must be rejected).
C  YAML structure faults the anchored validators are written to diagnose.
D  command line: exit status / stderr of the real CLI, and no wrapper source
   is written when the input is rejected.
"""
import json
import signal

import yaml
from hypothesis import given, seed, strategies as st

from .. import core, declgen, shroud_run, smallgen

LEVEL = "exploration"

DIAG_CLASSES = ("RuntimeError", "SystemExit", "DeprecationWarning")


class Hang(BaseException):
    pass


def _alarm(signum, frame):
    raise Hang()


def classify_exc(exc):
    """-> (class, key, detail) for an exception object raised in-process."""
    t, msg, origin, short, mro = shroud_run.exception_info(exc)
    return classify(t, msg, origin, mro, short)


def classify(t, msg, origin, mro, short=""):
    origin = origin or {}
    where = origin.get("shroud_frame") or "%s:%s" % (origin.get("file"), origin.get("func"))
    if any(c in mro for c in DIAG_CLASSES):
        if not (origin.get("in_shroud") and origin.get("is_raise")):
            return "internal", "internal:%s-not-from-a-raise-statement@%s" % (t, where), short
        if not (msg or "").strip():
            return "internal", "internal:empty-message:%s@%s" % (t, where), short
        return "diag", None, msg
    return "internal", "internal:%s@%s" % (t, where), short


def parse_error_wellformed(msg, text):
    """A message produced by the parser's error_msg names the declaration and
    carries a caret line (documented by error_msg itself)."""
    if not msg.startswith("Parse Error"):
        return True
    lines = msg.split("\n")
    if text not in msg:
        return False
    return any(l.strip() == "^" for l in lines)


_HANGS = []


def run_decl(text, context, entry="add"):
    """Parse `text` in a fresh library.  -> (class, key, detail)"""
    from shroud import declast
    lib, cls = declgen.make_library()
    ns = cls if context == "class" else lib
    signal.signal(signal.SIGALRM, _alarm)
    # (once a hang has been established in this shard, later cases get a short leash: they would be reported
    #  under the same key anyway and the search has to go on behind the finding)
    signal.setitimer(signal.ITIMER_REAL, 10 if not _HANGS else 2)
    try:
        try:
            if entry == "add":
                ns.add_declaration(text)
            elif entry == "expr":
                declast.check_expr(text)
            elif entry == "dim":
                declast.check_dimension(text, {})
            else:
                declast.check_decl(text, namespace=ns)
            return "ok", None, ""
        finally:
            signal.setitimer(signal.ITIMER_REAL, 0)
    except Hang:
        _HANGS.append(text)
        return "hang", "hang:" + entry, ""
    except RecursionError as e:
        return classify_exc(e)
    except BaseException as e:  # classified, never swallowed
        c, k, d = classify_exc(e)
        if c == "diag" and not parse_error_wellformed(d, text):
            return "internal", "diag-without-text-or-caret", d
        return c, k, d


# ---------------------------------------------------------------------------
# generators

TOK = st.sampled_from(declgen.ALPHABET)


def mutate(draw, toks):
    toks = list(toks)
    op = draw(st.sampled_from(["delete", "dup", "swap", "replace", "insert", "quote"]))
    if not toks:
        return [draw(TOK)], "insert"
    i = draw(st.integers(0, len(toks) - 1))
    if op == "quote":
        # an opening quote that is never closed (a deleted closing quote of a default value), early in the text
        toks.insert(min(i, 3), draw(st.sampled_from(['"', "'", '"untitled'])))
    elif op == "delete":
        del toks[i]
    elif op == "dup":
        toks.insert(i, toks[i])
    elif op == "swap" and len(toks) > 1:
        j = draw(st.integers(0, len(toks) - 1))
        toks[i], toks[j] = toks[j], toks[i]
    elif op == "replace":
        toks[i] = draw(TOK)
    else:
        toks.insert(i, draw(TOK))
    return toks, op


def split_attr_tokens(toks):
    """declgen joins '+name(form)' into one token; split for finer mutation."""
    out = []
    for t in toks:
        if t.startswith("+") and len(t) > 1:
            out.append("+")
            rest = t[1:]
            cur = ""
            for ch in rest:
                if ch in "()=,":
                    if cur:
                        out.append(cur)
                        cur = ""
                    out.append(ch)
                else:
                    cur += ch
            if cur:
                out.append(cur)
        else:
            out.append(t)
    return out


def strip_attr_regions(text):
    """Remove '+ name ( ... )' attribute values (free-form text up to the matching
    parenthesis, as documented) so that only the declaration proper is judged."""
    toks = text.split(" ")
    out = []
    i = 0
    while i < len(toks):
        if toks[i] == "+" and i + 2 < len(toks) and toks[i + 2] == "(":
            depth = 0
            j = i + 2
            while j < len(toks):
                if toks[j] == "(":
                    depth += 1
                elif toks[j] == ")":
                    depth -= 1
                    if depth == 0:
                        break
                j += 1
            if j >= len(toks):
                out.append("(")   # never closed: unbalanced
            i = j + 1
            continue
        out.append(toks[i])
        i += 1
    return " ".join(out)


def bracket_balance(text):
    """Counts of ( [ { minus ) ] } outside quoted strings and attribute values."""
    text = strip_attr_regions(text)
    q = None
    bal = {"(": 0, "[": 0, "{": 0}
    close = {")": "(", "]": "[", "}": "{"}
    for ch in text:
        if q:
            if ch == q:
                q = None
            continue
        if ch in "\"'":
            q = ch
        elif ch in bal:
            bal[ch] += 1
        elif ch in close:
            bal[close[ch]] -= 1
    return bal, q is not None


@st.composite
def case(draw):
    kind = draw(st.sampled_from(["valid", "mutant", "mutant", "mutant", "random", "random",
                                 "expr", "trailing", "unbalanced", "blank"]))
    ctx = draw(st.sampled_from(["library", "library", "class"]))
    if kind == "blank":
        # no token at all: empty text, blanks, line ends (every entry point)
        text = draw(st.sampled_from(["", " ", "  ", "\n", " \n ", "\t"]))
        return dict(kind=kind, context=ctx, text=text, entry=draw(st.sampled_from(["add", "expr", "dim", "decl"])), must=None)
    if kind == "expr":
        n = draw(st.integers(1, 9))
        toks = [draw(st.sampled_from(["a", "n", "size", "len", "(", ")", "+", "-", "*", "/", ",", "3", "1.5",
                                      "..", "1e3", "[", "]", "{", "}", "=", "::", "&", "<", ">", "'c'", "\"s\"",
                                      "010", "x", ";"])) for _ in range(n)]
        entry = draw(st.sampled_from(["expr", "dim"]))
        return dict(kind=kind, context=ctx, text=" ".join(toks), entry=entry, must=None)
    if kind == "random":
        n = draw(st.integers(1, 25))
        toks = [draw(TOK) for _ in range(n)]
        return dict(kind=kind, context=ctx, text=" ".join(toks), entry="add", must=None)
    d = draw(declgen.declaration(context=ctx))
    toks = split_attr_tokens(d["tokens"])
    if kind == "valid":
        return dict(kind=kind, context=ctx, text=d["text"], entry="add", must="accept", feats=d["feats"])
    if kind == "mutant":
        t2, op = mutate(draw, toks)
        return dict(kind=kind, context=ctx, text=" ".join(t2), entry="add", must=None, op=op)
    if kind == "trailing":
        junk = [draw(TOK) for _ in range(draw(st.integers(1, 3)))]
        junk = [j for j in junk if j not in (";",)] or ["x"]
        return dict(kind=kind, context=ctx, text=" ".join(toks) + " ; " + " ".join(junk), entry="add",
                    must="reject")
    # unbalanced
    t2 = list(toks)
    idx = [i for i, t in enumerate(t2) if t in "()[]"]
    if idx and draw(st.booleans()):
        del t2[draw(st.sampled_from(idx))]
    else:
        t2.insert(draw(st.integers(0, len(t2))), draw(st.sampled_from(["(", ")", "[", "]", "{", "}"])))
    text = " ".join(t2)
    bal, openq = bracket_balance(text)
    must = "reject" if (any(v != 0 for v in bal.values()) and not openq) else None
    return dict(kind="unbalanced", context=ctx, text=text, entry="add", must=must)


def judge_case(c):
    """-> (class, failure key or None, detail)"""
    cl, key, detail = run_decl(c["text"], c["context"], c["entry"])
    if cl in ("internal", "hang"):
        return cl, key, detail
    if c.get("must") == "accept" and cl != "ok":
        return cl, "valid-declaration-rejected", detail
    if c.get("must") == "reject" and cl == "ok":
        return cl, "ill-formed-accepted:" + c["kind"], ""
    return cl, None, detail


def ddmin_tokens(c, key):
    """Shrink the token list of a failing case while the same key reproduces."""
    toks = c["text"].split(" ")
    changed = True
    budget = 400 if not key.startswith("hang") else 12
    while changed and budget > 0:
        changed = False
        for i in range(len(toks)):
            cand = toks[:i] + toks[i + 1:]
            if not cand:
                continue
            c2 = dict(c, text=" ".join(cand))
            if c.get("must") == "reject":
                bal, openq = bracket_balance(c2["text"])
                if c["kind"] == "unbalanced" and not (any(v != 0 for v in bal.values()) and not openq):
                    continue
                if c["kind"] == "trailing" and (";" not in cand[:-1]):
                    continue
            if c.get("must") == "accept":
                continue
            budget -= 1
            if judge_case(c2)[1] == key:
                toks = cand
                changed = True
                break
    return dict(c, text=" ".join(toks))


def shard_tokens(sctx, n):
    found = {}

    @seed(sctx.seed)
    @core.hyp_settings(n, shrink=False)
    @given(c=case())
    def prop(c):
        cl, key, detail = judge_case(c)
        nt = c["kind"] in ("mutant", "trailing", "unbalanced") or (c["kind"] in ("random", "expr") and cl != "ok")
        sctx.case(sample=dict(c, outcome=cl, message=(detail or "")[:200]) if (cl == "diag" and c["kind"] == "mutant") else None,
                  nontrivial=(c["kind"], c["context"], c["text"]) if nt else None,
                  label=["A:" + c["kind"], "A:outcome:" + cl])
        if key:
            if key not in found or len(c["text"]) < len(found[key][0]["text"]):
                found[key] = (c, detail)
    prop()
    for key, (c, detail) in sorted(found.items()):
        c2 = ddmin_tokens(c, key)
        cl, key2, detail2 = judge_case(c2)
        sctx.failure("A:" + key, dict(part="A", **c2), expected=expectation(c2), observed=(detail2 or detail)[-1500:],
                     note="%s context, entry %s: %r -> %s" % (c2["context"], c2["entry"], c2["text"], key))


def expectation(c):
    if c.get("must") == "accept":
        return "accepted (declaration is in the documented grammar)"
    if c.get("must") == "reject":
        return "rejected with a RuntimeError/SystemExit diagnostic (ill-formed text)"
    return "accepted, or rejected with a RuntimeError/SystemExit-style diagnostic"


# ---------------------------------------------------------------------------
# B attribute level

ATTR_NAMES = ["allocatable", "assumedtype", "capsule", "cdesc", "charlen", "external", "deref", "dimension",
              "hidden", "implied", "intent", "len", "len_trim", "name", "owner", "pass", "rank", "size",
              "value", "free_pattern", "pure", "readonly", "bogus"]
ATTR_VALUE_FORMS = ["", "(3)", "(in)", "(n)", "=3", "=x", "()", "(a,b)", "(size(n))", "(size(3))", "(size())", "(1+len_trim())",
                    "(size(n) 2)", "(1+)",
                    "(\"s\")", "=1.5", "(..)", "(raw)", "(caller)"]
ATTR_SITES = {
    "func-result-ptr": "int *func(int n) {A}",
    "func-result-scalar": "int func(int n) {A}",
    "func-result-string": "const std::string &func(int n) {A}",
    "arg-ptr": "void func(int *a {A}, int n)",
    "arg-scalar": "void func(int a {A}, int n)",
    "arg-charptr": "void func(char *a {A}, int n)",
    "arg-string": "void func(std::string &a {A}, int n)",
    "arg-vector": "void func(std::vector<int> &a {A}, int n)",
    "var-member-ptr": "class Class1|int *m_v {A};",
    "var-member": "class Class1|int m_v {A};",
    "struct-member": "struct S1 {{ int *m_v {A}; }};",
    # an argument list of a fortran_generic variant (fortran.rst): validated by the same code as a declaration's
    # a parameter of a function-pointer argument (declarations.rst "Function Pointers")
    "fptr-param": "void func(int (*fn)(int a {A}))",
    "fptr-param-ptr": "void func(void (*fn)(double *a {A}, int n))",
    "generic-arg-ptr": "GENERIC|void func(double *arg, int n)|(float *arg {A}, int n)",
    "generic-arg-scalar": "GENERIC|void func(double arg)|(float arg {A})",
}

# documented illegal combinations (explicit checks in generate.VerifyAttrs): must be rejected
ILLEGAL = [
    ("value+dimension", "void func(int *a +value+dimension(3))"),
    ("rank+dimension", "void func(int *a +rank(1)+dimension(3))"),
    ("dimension-nonpointer", "void func(int a +dimension(3))"),
    ("rank-nonpointer", "void func(int a +rank(1))"),
    ("deref-nonpointer", "void func(int a +deref(raw))"),
    ("deref-badvalue", "void func(int *a +deref(bogus))"),
    ("intent-badvalue", "void func(int *a +intent(sideways))"),
    ("intent-out-nonpointer", "void func(int a +intent(out))"),
    ("charlen-nonchar", "void func(int *a +intent(out)+charlen(3))"),
    ("charlen-novalue", "void func(char *a +intent(out)+charlen)"),
    ("owner-badvalue", "int *func() +owner(nobody)"),
    ("rank-novalue", "void func(int *a +rank)"),
    ("rank-noninteger", "void func(int *a +rank(x))"),
    ("rank-toolarge", "void func(int *a +rank(8))"),
    ("dimension-novalue", "void func(int *a +dimension)"),
    ("free_pattern-undefined", "int *func() +free_pattern(nopattern)"),
    ("assumedtype+value", "void func(void *a +assumedtype+value)"),
    ("default-gap", "void func(int a = 1, int b)"),
    ("vector-without-argument", "void func(std::vector &a)"),
    ("template-arg-on-nontemplate", "void func(std::string<int> &a)"),
    # (explicit diagnostic in declast: "Only single template argument accepted"; the second text is ill-formed C++)
    ("template-two-arguments", "void func(std::vector<int,double> &a)"),
    ("template-dangling-comma", "void func(std::vector<int,> &a)"),
    ("template-two-arguments-result", "std::vector<int,double> func()"),
    ("illegal-attr-function", "void func() +intent(in)"),
    ("illegal-attr-argument", "void func(int a +readonly)"),
    ("illegal-attr-variable", "class Class1|int m_v +intent(in);"),
    ("implied-on-out", "void func(int *a, int n +intent(out)+implied(size(a)))"),
    ("implied-unknown-arg", "void func(int *a +rank(1), int n +implied(size(zz)))"),
    ("implied-too-many-args", "void func(int *a +rank(1), int n +implied(size(a,1,2)))"),
    ("dimension-unparsable", "void func(int *a +dimension(3 +))"),
    ("implied-trailing-text", "void func(int *a +rank(1), int n +implied(size(a) 2))"),
    ("dimension-trailing-text", "void func(int *a +dimension(3 4))"),
    ("implied-unbalanced", "void func(int *a +rank(1), int n +implied(size(a)])"),
    ("generic-illegal-attr-argument", "GENERIC|void func(double arg)|(float arg +readonly)"),
    ("generic-intent-out-nonpointer", "GENERIC|void func(double arg)|(float arg +intent(out))"),
]


def _near_misses():
    """Values that look like a legal value of an enumerated attribute but are not one (reference.rst lists the
    legal values of intent, deref, owner and api): a legal value with a character missing at either end, a
    single leading character, an extra character, two legal values in one, nothing at all."""
    res = []
    for attr, legal, site in (("intent", ["in", "out", "inout"], "void func(int *a +intent(%s))"),
                              ("intent", ["in", "out", "inout"], "void func(const std::string &a +intent(%s))"),
                              ("deref", ["allocatable", "pointer", "raw", "scalar"], "int *func() +deref(%s)"),
                              ("deref", ["allocatable", "pointer", "raw", "scalar"], "void func(int **a +intent(out)+deref(%s))"),
                              ("owner", ["caller", "library"], "int *func() +owner(%s)"),
                              ("api", ["buf", "capi", "cfi"], "void func(const char *a +api(%s))")):
        near = []
        for v in legal:
            near += [v[:-1], v[1:], v[:1], v + "x", v + v]
        near += ["", "%s %s" % (legal[0], legal[1])]
        seen = set()
        for v in near:
            if v.lower() in legal or v in seen:
                continue
            seen.add(v)
            res.append(("%s-near-miss:%s:%s" % (attr, site.split("(")[0].split()[-1] + ("-arg" if "a +" in site else "-result"), v or "empty"),
                        site % v))
    return res


ILLEGAL += _near_misses()


def yaml_for_decl(site_text, wrappers):
    decls = []
    if site_text.startswith("GENERIC|"):
        _g, fdecl, gdecl = site_text.split("|", 2)
        decls.append({"decl": fdecl, "fortran_generic": [{"decl": gdecl}, {"decl": "(%s)" % fdecl.split("(", 1)[1].rsplit(")", 1)[0]}]})
    elif "|" in site_text:
        cls, member = site_text.split("|", 1)
        decls.append({"decl": cls, "declarations": [{"decl": member}]})
    else:
        decls.append({"decl": site_text})
    d = {"library": "attrlib", "cxx_header": "attrlib.hpp",
         "options": {"wrap_python": "python" in wrappers, "wrap_lua": "lua" in wrappers,
                     "wrap_c": True, "wrap_fortran": True},
         "declarations": decls}
    return yaml.safe_dump(d, sort_keys=False, width=1000)


def _attr_job(job):
    kind, label, text, wrappers, must = job
    ytext = yaml_for_decl(text, wrappers)
    r = shroud_run.run_yaml(ytext, [], name="attrlib")
    srcs = [f for f in r.files if not f.endswith((".log", ".json"))]
    if r.status == "ok":
        cl, key, detail = "ok", None, ""
    elif r.status == "timeout":
        cl, key, detail = "hang", "hang:pipeline", ""
    else:
        mro = (r.extra or {}).get("mro") or [r.exc_type]
        cl, key, detail = classify(r.exc_type, r.exc_msg, r.exc_origin, mro, r.exc_tb)
    return dict(kind=kind, label=label, text=text, wrappers=wrappers, must=must, cls=cl, key=key,
                detail=(detail or "")[-1200:], msg=(r.exc_msg or "")[:300], nsrc=len(srcs),
                stage=(r.exc_origin or {}).get("file"))


def attr_jobs(quick, seed_value):
    jobs = []
    import random  # deterministic sub-sampling of the finite product from VERIF_SEED
    rnd = random.Random(seed_value)
    for site, tmpl in sorted(ATTR_SITES.items()):
        for name in ATTR_NAMES:
            for form in ATTR_VALUE_FORMS:
                jobs.append(("attr", "%s/+%s%s" % (site, name, form), tmpl.format(A="+" + name + form),
                             ["python"] if site.startswith("arg-scalar") else [], None))
    if quick:
        jobs = rnd.sample(jobs, 700)
    for label, text in ILLEGAL:
        jobs.append(("illegal", label, text, [], "reject"))
    return jobs


# ---------------------------------------------------------------------------
# C YAML structure faults

def yaml_faults():
    base = {"library": "ylib", "cxx_header": "ylib.hpp"}
    f = []

    def lib(**kw):
        d = dict(base)
        d.update(kw)
        return d
    f.append(("default_arg_suffix-not-list", lib(declarations=[{"decl": "void f(int a = 1)", "default_arg_suffix": "x"}])))
    f.append(("cxx_template-not-list", lib(declarations=[{"decl": "template<typename T> void f(T a)", "cxx_template": "int"}])))
    f.append(("cxx_template-entry-not-dict", lib(declarations=[{"decl": "template<typename T> void f(T a)", "cxx_template": ["<int>"]}])))
    f.append(("cxx_template-missing-instantiation", lib(declarations=[{"decl": "template<typename T> void f(T a)", "cxx_template": [{"inst": "<int>"}]}])))
    f.append(("fortran_generic-not-list", lib(declarations=[{"decl": "void f(double a)", "fortran_generic": {"decl": "(float a)"}}])))
    f.append(("fortran_generic-not-list-scalar", lib(declarations=[{"decl": "void f(double a)", "fortran_generic": "(float a)"}])))
    f.append(("fortran_generic-entry-not-dict", lib(declarations=[{"decl": "void f(double a)", "fortran_generic": ["(float a)"]}])))
    f.append(("fortran_generic-missing-decl", lib(declarations=[{"decl": "void f(double a)", "fortran_generic": [{"dcl": "(float a)"}]}])))
    f.append(("declaration-without-decl-or-block", lib(declarations=[{"name": "f"}])))
    f.append(("language-unknown", lib(language="fortran", declarations=[{"decl": "void f()"}])))
    f.append(("typemap-base-unknown", lib(typemap=[{"type": "Foo", "fields": {"base": "other"}}], declarations=[{"decl": "void f()"}])))
    f.append(("template-instantiation-unparsable", lib(declarations=[{"decl": "template<typename T> void f(T a)", "cxx_template": [{"instantiation": "<int"}]}])))
    f.append(("template-instantiation-unknown-type", lib(declarations=[{"decl": "template<typename T> void f(T a)", "cxx_template": [{"instantiation": "<nosuchtype>"}]}])))
    # text after a complete argument list / template argument list is not silently dropped
    f.append(("fortran_generic-trailing-text", lib(declarations=[{"decl": "void f(double a)", "fortran_generic": [{"decl": "(float a) junk"}, {"decl": "(double a)"}]}])))
    f.append(("fortran_generic-unbalanced", lib(declarations=[{"decl": "void f(double a)", "fortran_generic": [{"decl": "(float a"}, {"decl": "(double a)"}]}])))
    f.append(("template-instantiation-trailing-text", lib(declarations=[{"decl": "template<typename T> void f(T a)", "cxx_template": [{"instantiation": "<int> junk"}]}])))
    f.append(("splicer-file-missing", lib(splicer={"c": ["nosuchfile.c"]}, declarations=[{"decl": "void f()"}])))
    f.append(("unknown-type-in-decl", lib(declarations=[{"decl": "void f(nosuchtype a)"}])))
    f.append(("destructor-outside-class", lib(declarations=[{"decl": "~Foo()"}])))
    f.append(("destructor-wrong-name", lib(declarations=[{"decl": "class Foo", "declarations": [{"decl": "~Bar()"}]}])))
    f.append(("unknown-base-class", lib(declarations=[{"decl": "class Foo : public Nothing"}])))
    f.append(("varargs", lib(declarations=[{"decl": "void f(int a, ...)"}])))
    f.append(("pointer-typedef", lib(declarations=[{"decl": "typedef int *IntPtr"}])))
    return f


def _yaml_job(job):
    label, doc = job
    ytext = yaml.safe_dump(doc, sort_keys=False, width=1000)
    r = shroud_run.run_yaml(ytext, [], name="ylib")
    srcs = [f for f in r.files if not f.endswith((".log", ".json"))]
    if r.status == "ok":
        cl, key, detail = "ok", None, ""
    elif r.status == "timeout":
        cl, key, detail = "hang", "hang:pipeline", ""
    else:
        mro = (r.extra or {}).get("mro") or [r.exc_type]
        cl, key, detail = classify(r.exc_type, r.exc_msg, r.exc_origin, mro, r.exc_tb)
    return dict(label=label, yaml=ytext, cls=cl, key=key, detail=(detail or "")[-1200:], nsrc=len(srcs),
                msg=(r.exc_msg or "")[:300])


# ---------------------------------------------------------------------------
# E whole pipeline on declarations the parser accepts

PRELUDE_DECLS = [
    {"decl": "class Class1", "declarations": []},
    {"decl": "namespace ns1", "declarations": [{"decl": "class Inner"}, {"decl": "namespace ns2", "declarations": [{"decl": "class Deep"}]}]},
    {"decl": "typedef int TypeID"}, {"decl": "enum Color { RED, BLUE }"}, {"decl": "struct Str1 { int i; }"},
]


EXCLUDED = []
PIPE_PROBES = [
    ("function-pointer-variable", "library", "char **const (*a)()"),
    ("vector-of-string-result", "library", "std::vector<std::string> func(void)"),
    ("python-pointer-member-variable", "class", "unsigned short * value"),
]


def _pipe_job(job):
    idx, context, text, python = job
    import copy
    decls = copy.deepcopy(PRELUDE_DECLS)
    if context == "class":
        decls[0]["declarations"].append({"decl": text})
    else:
        decls.append({"decl": text})
    if not decls[0]["declarations"]:
        del decls[0]["declarations"]
    doc = {"library": "pipe", "cxx_header": "pipe.hpp", "options": {"wrap_python": python, "wrap_lua": False},
           "declarations": decls}
    ytext = yaml.safe_dump(doc, sort_keys=False, width=1000)
    r = shroud_run.run_yaml(ytext, [], name="pipe")
    if r.status == "ok":
        cl, key, detail = "ok", None, ""
    elif r.status == "timeout":
        cl, key, detail = "hang", "hang:pipeline", ""
    else:
        mro = (r.extra or {}).get("mro") or [r.exc_type]
        cl, key, detail = classify(r.exc_type, r.exc_msg, r.exc_origin, mro, r.exc_tb)
    return dict(idx=idx, context=context, text=text, python=python, yaml=ytext, cls=cl, key=key, detail=(detail or "")[-1200:],
                msg=(r.exc_msg or "")[:200])


def pipe_jobs(n, seed_value):
    """Declarations of the documented grammar without attributes (the C++ text alone)."""
    ds = smallgen.sample(declgen.declaration(), seed_value + 9, n)
    jobs = []
    seen = set()
    for d in ds:
        text = d["cxx"]
        m = d["model"]
        # shapes of the two recorded findings (probed separately below) are left out of the search
        if m.get("kind") == "fptr" or "std::vector<std::string>" in text.replace(" ", ""):
            EXCLUDED.append(text)
            continue
        if (d["context"], text) in seen:
            continue
        seen.add((d["context"], text))
        python = len(jobs) % 3 == 0
        if python and m.get("kind") == "var" and m.get("ptrs"):
            # a pointer member variable / global with the Python wrapper: recorded finding (missing helper -> KeyError)
            EXCLUDED.append(text)
            python = False
        jobs.append((len(jobs), d["context"], text, python))
    return jobs


# ---------------------------------------------------------------------------
# D command line

CLI_CASES = [
    ("parse-error", "void f(int a", True),
    ("illegal-attribute", "void f(int a +dimension(3))", True),
    ("unknown-type", "void f(nosuch a)", True),
    ("valid", "void f(int a)", False),
]


def _cli_job(job):
    label, decl, bad = job
    ytext = yaml.safe_dump({"library": "clilib", "cxx_header": "clilib.hpp", "declarations": [{"decl": decl}]})
    r = shroud_run.run_yaml(ytext, [], name="clilib", mode="cli")
    srcs = [f for f in r.files if not f.endswith((".log", ".json"))]
    return dict(label=label, decl=decl, bad=bad, exit=r.exit_code, stderr=r.stderr[-800:], nsrc=len(srcs))


def run(ctx):
    quick = ctx.tier == "quick"
    ctx.rule = ("A: Hypothesis token-level cases over the declaration alphabet (valid declarations from the grammar "
                "generator, single-token mutants, random sequences <= 25 tokens, expression strings, text after ';', "
                "unbalanced brackets) in library and class context; non-trivial = a mutant / must-reject case, or a "
                "random/expression input that was not accepted; distinct by (kind, context, text). "
                "B: attribute name x value form x site through the whole pipeline + documented illegal combinations; "
                "non-trivial = the input was rejected. C: YAML structure faults. D: real command line.")
    ctx.assumptions = [
        "diagnostic = exception of class RuntimeError (incl. NotImplementedError), SystemExit or DeprecationWarning "
        "raised by an explicit raise statement inside shroud/ with a non-empty message; parser messages "
        "('Parse Error') must contain the declaration and a caret line",
        "must-reject sets are limited to provably ill-formed text: tokens after the terminating ';', "
        "unbalanced ()[]{} outside quotes, and the combinations generate.VerifyAttrs explicitly checks",
        "hang = no answer within 10 s CPU for one declaration",
    ]
    n = 24000 if quick else 1000000
    core.run_sharded(ctx, "vf.props.c17", "shard_tokens", n=n // core.NCPU)
    # B
    jobs = attr_jobs(quick, ctx.seed)
    for res in core.pool_map(_attr_job, jobs, chunksize=4):
        ctx.case(label=["B:" + res["kind"], "B:outcome:" + res["cls"]],
                 nontrivial=("B", res["label"]) if res["cls"] != "ok" else None,
                 sample=dict(part="B", decl=res["text"], outcome=res["cls"], message=res["msg"])
                 if res["cls"] == "diag" and res["kind"] == "illegal" and len(ctx.samples) < 6 else None)
        case = dict(part="B", kind=res["kind"], label=res["label"], text=res["text"], wrappers=res["wrappers"],
                    must=res["must"])
        if res["key"]:
            ctx.failure("B:" + res["key"], case, expected="accepted or diagnostic", observed=res["detail"],
                        note="%s: %r -> %s" % (res["label"], res["text"], res["key"]))
        elif res["must"] == "reject" and res["cls"] == "ok":
            ctx.failure("B:illegal-combination-accepted:" + res["label"], case, expected="RuntimeError diagnostic",
                        observed="accepted", note="documented illegal combination accepted: %r" % res["text"])
        elif res["cls"] == "diag" and res["nsrc"] and res["stage"] in ("generate.py", "declast.py", "ast.py"):
            ctx.failure("B:output-before-diagnostic", case, expected="no wrapper source written before the diagnostic",
                        observed="%d source files" % res["nsrc"], note=res["label"])
    # C
    for res in core.pool_map(_yaml_job, yaml_faults()):
        ctx.case(label=["C:yaml", "C:outcome:" + res["cls"]], nontrivial=("C", res["label"]),
                 sample=dict(part="C", fault=res["label"], outcome=res["cls"], message=res["msg"])
                 if len(ctx.samples) < 8 else None)
        case = dict(part="C", label=res["label"], yaml=res["yaml"])
        if res["key"]:
            ctx.failure("C:" + res["label"] + ":" + res["key"], case, expected="diagnostic", observed=res["detail"],
                        note="YAML fault %s -> %s" % (res["label"], res["key"]))
        elif res["cls"] == "ok":
            ctx.failure("C:fault-accepted:" + res["label"], case, expected="diagnostic", observed="accepted",
                        note="YAML fault %s accepted silently" % res["label"])
    # E
    found = {}
    for res in core.pool_map(_pipe_job, pipe_jobs(400 if quick else 6000, ctx.seed), chunksize=4):
        ctx.case(label=["E:pipeline", "E:outcome:" + res["cls"]], nontrivial=("E", res["context"], res["text"]))
        if res["key"] and (res["key"] not in found or len(res["text"]) < len(found[res["key"]]["text"])):
            found[res["key"]] = res
    ctx.exclude_known("probe:function-pointer-variable", len(EXCLUDED))
    for name, context, text in PIPE_PROBES:
        res = _pipe_job((0, context, text, name.startswith("python")))
        ctx.case(label="probe")
        if res["key"]:
            ctx.failure("probe:" + name, dict(part="E", probe=name, context=context, text=text, python=name.startswith("python")),
                        expected="wrappers written, or a diagnostic", observed=res["detail"],
                        note="%r -> %s" % (text, res["key"]))
    for key, res in sorted(found.items()):
        ctx.failure("E:" + key, dict(part="E", context=res["context"], text=res["text"], python=res["python"]),
                    expected="wrappers written, or a diagnostic", observed=res["detail"],
                    note="declaration accepted by the parser: %r (%s context) -> %s" % (res["text"], res["context"], key))
    # D
    for res in core.pool_map(_cli_job, CLI_CASES):
        ctx.case(label="D:cli", nontrivial=("D", res["label"]) if res["bad"] else None)
        case = dict(part="D", label=res["label"], decl=res["decl"], bad=res["bad"])
        if res["bad"]:
            if res["exit"] in (0, None):
                ctx.failure("D:exit-status-zero:" + res["label"], case, expected="non-zero exit", observed=res["exit"],
                            note="command line exits 0 on invalid input")
            elif res["decl"].split("(")[0] not in res["stderr"] and "line" not in res["stderr"]:
                ctx.failure("D:stderr-without-text:" + res["label"], case, expected="message naming the text or line",
                            observed=res["stderr"], note="stderr does not identify the offending text")
            elif res["nsrc"]:
                ctx.failure("D:output-before-diagnostic:" + res["label"], case, expected="no source written",
                            observed=res["nsrc"], note="wrapper sources written although input was rejected")
        elif res["exit"] != 0:
            ctx.failure("D:valid-rejected", case, expected="exit 0", observed=res["stderr"], note="valid input rejected")


def replay(ctx, rec):
    c = rec["case"]
    part = c.get("part")
    if part == "A":
        cl, key, detail = judge_case(c)
        if key:
            ctx.failure("A:" + key, c, observed=detail, note=key)
    elif part == "B":
        res = _attr_job((c["kind"], c["label"], c["text"], c["wrappers"], c["must"]))
        if res["key"] or (c["must"] == "reject" and res["cls"] == "ok"):
            ctx.failure(rec["key"], c, observed=res["detail"], note=str(res["key"]))
    elif part == "E":
        res = _pipe_job((0, c["context"], c["text"], c["python"]))
        if res["key"]:
            ctx.failure(("probe:" + c["probe"]) if c.get("probe") else "E:" + res["key"], c, observed=res["detail"], note=str(res["key"]))
    elif part == "C":
        res = _yaml_job((c["label"], yaml.safe_load(c["yaml"])))
        if res["key"] or res["cls"] == "ok":
            ctx.failure(rec["key"], c, observed=res["detail"], note=str(res["key"]))
    elif part == "D":
        res = _cli_job((c["label"], c["decl"], c["bad"]))
        if (c["bad"] and res["exit"] in (0, None)) or (not c["bad"] and res["exit"] != 0):
            ctx.failure(rec["key"], c, observed=res["stderr"])
