"""C13 - line wrapping never alters code and respects Fortran's line limit.

G1  write_continue over generated logical lines (text parts + \\t \\f \\r hints)
G2  write_lines over generated directive sequences (+ - @ ^ # ints, newlines)
G3  generated files: (a) no non-comment Fortran line > 132 columns at default
    settings, (b) metamorphic: the comment-free token stream of every output
    file is the same at every drawn C_line_length / F_line_length.
"""
import io
import json

from hypothesis import given, seed, strategies as st

from .. import core, corpus, lex, shroud_run, smallgen

LEVEL = "exploration"

TEXT_ALPHABET = "abXY01 ,()=*&%:;'\"{}+-_/.<>[]!#@^\\"
CONTS = ["", " &", "\\"]


def _writer(linelen, cont, indent):
    import shroud.util

    class W(shroud.util.WrapperMixin):
        pass
    w = W()
    w.linelen = linelen
    w.cont = cont
    w.indent = indent
    return w


# --------------------------------------------------------------------------
# G1 oracle


def split_hints(line):
    """-> (T, hints) where T is the text without hints and hints is a list of
    (offset in T, kind) for every \\t and \\f."""
    T = []
    hints = []
    for ch in line:
        if ch == "\t":
            hints.append((len(T), "t"))
        elif ch == "\f":
            hints.append((len(T), "f"))
        else:
            T.append(ch)
    return "".join(T), hints


def judge_continue(line, linelen, cont, indent, spaces, out):
    """Return None if `out` (text written) is a correct rendering of logical
    `line`, else a short reason."""
    if not out.endswith("\n"):
        return "output does not end with a newline"
    phys = out[:-1].split("\n")
    body = line[1:] if line.startswith("\r") else line
    T, hints = split_hints(body)
    prefix = spaces * indent
    contents = []
    for i, pl in enumerate(phys):
        if i < len(phys) - 1:
            if not pl.endswith(cont):
                return "broken line %d lacks continuation marker %r: %r" % (i, cont, pl)
            pl = pl[: len(pl) - len(cont)] if cont else pl
        contents.append(pl)
    if not contents[0].startswith(prefix):
        return "first line does not start with the indentation: %r" % contents[0]
    # --- text preservation and break positions
    pos = 0
    spans = []
    hint_offsets = [h for h, _ in hints]
    covered_f = set()
    for i, c in enumerate(contents):
        if i == 0:
            c0 = c[len(prefix):]
            if not T.startswith(c0):
                return "first line text %r is not a prefix of the logical text %r" % (c0, T)
            spans.append((0, len(c0)))
            pos = len(c0)
        else:
            rest = T[pos:]
            w = len(rest) - len(rest.lstrip(" "))
            # break position lies in [pos, pos+w]; needs a hint there
            hs = [h for h in hint_offsets if pos <= h <= pos + w]
            if not hs:
                return "line break %d at text offset %d..%d is not at a break hint" % (i, pos, pos + w)
            for h, k in hints:
                if k == "f" and pos <= h <= pos + w:
                    covered_f.add(h)
            s = c.lstrip(" ")
            r2 = rest[w:]
            if not r2.startswith(s):
                # whitespace-only part dropped at the break, next part kept its blanks
                return "continuation line %d text %r does not continue the logical text %r" % (i, s, r2[:len(s) + 5])
            if s == "":
                # blank continuation line (whitespace-only part between two breaks):
                # consumes nothing, the blanks stay "whitespace at a break point"
                spans.append((pos, pos))
            else:
                spans.append((pos + w, pos + w + len(s)))
                pos = pos + w + len(s)
    if T[pos:].strip(" ") != "":
        return "text lost at the end: %r" % T[pos:]
    # --- every form feed forces a break
    for h, k in hints:
        if k == "f" and h not in covered_f:
            return "form feed at offset %d did not break the line" % h
    # --- length
    for i, c in enumerate(contents):
        if len(c) > linelen:
            a, b = spans[i]
            interior = [h for h in hint_offsets
                        if a < h < b and T[a:h].strip(" ") and T[h:b].strip(" ")]
            if interior:
                return ("physical line %d has %d > %d columns although a break hint lies inside it"
                        % (i, len(c), linelen))
    return None


part_text = st.text(alphabet=TEXT_ALPHABET, min_size=0, max_size=30)


@st.composite
def logical_line(draw):
    n = draw(st.integers(1, 10))
    parts = [draw(part_text) for _ in range(n)]
    seps = [draw(st.sampled_from(["\t", "\t", "\t", "\f", "", "\t ", "\f "])) for _ in range(n - 1)]
    s = parts[0]
    for sp, p in zip(seps, parts[1:]):
        s += sp + p
    # precondition (stated in the code): a form feed is never the last part
    while s and s[-1] in "\f\t":
        s = s[:-1]
    lead = draw(st.sampled_from(["", "", "\r"]))
    s = lead + s
    return s


def shard_g1(sctx, n):
    @seed(sctx.seed)
    @core.hyp_settings(n)
    @given(line=logical_line(), linelen=st.one_of(st.integers(5, 132), st.sampled_from([20, 40, 72, 132, 0, 0, 1])),
           cont=st.sampled_from(CONTS), indent=st.integers(0, 6),
           spaces=st.sampled_from(["    ", "  "]))
    def prop(line, linelen, cont, indent, spaces):
        body = line[1:] if line.startswith("\r") else line
        if not body or not line:
            return  # write_lines never passes an empty line
        T, hints = split_hints(body)
        w = _writer(linelen, cont, indent)
        fp = io.StringIO()
        w.write_continue(fp, line, spaces)
        out = fp.getvalue()
        why = judge_continue(line, linelen, cont, indent, spaces, out)
        nphys = out.count("\n")
        sctx.case(sample=dict(line=line, linelen=linelen, cont=cont, indent=indent, out=out)
                  if nphys > 1 else None,
                  nontrivial=("g1", line, linelen, cont, indent) if nphys > 1 else None,
                  label=["g1", "g1:broken" if nphys > 1 else "g1:single",
                         "g1:ff" if "\f" in line else "g1:noff"])
        if why:
            sctx.failure("g1:" + why.split(" ")[0] + ":" + why.split(" ")[1],
                         dict(kind="g1", line=line, linelen=linelen, cont=cont, indent=indent,
                              spaces=spaces),
                         expected="a faithful wrapping of the logical line", observed=out,
                         note="write_continue: " + why)
            raise AssertionError(why)
    try:
        prop()
    except AssertionError:
        pass


# --------------------------------------------------------------------------
# G2 write_lines directives

def expected_text_of(sub):
    """Reference reading of the documented directives: what text a directive
    line carries, or None for an empty line."""
    if sub == "":
        return ""
    c = sub[0]
    if c == "#":
        return sub
    if c == "@":
        return sub[1:]
    if c == "^":
        return sub[1:]
    if c == "+":
        return sub[1:-1] if sub.endswith("-") else sub[1:]
    t = sub.lstrip("-")
    if t.endswith("+"):
        t = t[:-1]
    return t


plain_text = st.text(alphabet="abXY01 ,()=*%:;'\"{}_/.<>[]!", min_size=1, max_size=25).filter(
    lambda s: s.strip(" ") != "" and s[0] not in " ")


@st.composite
def directive_line(draw):
    text = draw(plain_text)
    hint = draw(st.booleans())
    if hint:
        k = draw(st.integers(1, max(1, len(text) - 1)))
        text = text[:k] + "\t" + text[k:]
    form = draw(st.sampled_from(["plain", "plain", "+", "+-", "-", "--", "t+", "-t+", "@", "@-", "@+", "^", "#", "\r"]))
    if form == "plain":
        return text
    if form == "+":
        return "+" + text
    if form == "+-":
        return "+" + text + "-"
    if form == "-":
        return "-" + text
    if form == "--":
        return "--" + text
    if form == "t+":
        return text + "+"
    if form == "-t+":
        return "-" + text + "+"
    if form == "@":
        return "@" + text
    if form == "@-":
        return "@-" + text
    if form == "@+":
        return "@" + text + "+"
    if form == "^":
        return "^" + text.replace("\t", "")
    if form == "#":
        return "#" + text.replace("\t", "")
    if form == "\r":
        return "\r" + text
    raise AssertionError


def norm_ws(s):
    return "".join(s.split())


def shard_g2(sctx, n):
    @seed(sctx.seed + 7)
    @core.hyp_settings(n)
    @given(items=st.lists(st.one_of(directive_line(), st.integers(-2, 2), st.just("")),
                          min_size=1, max_size=8),
           join=st.booleans(), linelen=st.integers(10, 100), cont=st.sampled_from(CONTS))
    def prop(items, join, linelen, cont):
        lines = list(items)
        if join:
            # embedded newlines: several directive lines in one string
            strs = [x for x in lines if isinstance(x, str)]
            lines = [x for x in lines if not isinstance(x, str)] + ["\n".join(strs)] if strs else lines
        w = _writer(linelen, cont, 2)
        fp = io.StringIO()
        w.write_lines(fp, lines)
        out = fp.getvalue()
        # expected: concatenation of the texts, hints removed, whitespace-insensitive
        exp = []
        for x in lines:
            if isinstance(x, int):
                continue
            for sub in x.split("\n"):
                t = expected_text_of(sub)
                if t.startswith("\r"):
                    t = t[1:]
                exp.append(t.replace("\t", "").replace("\f", ""))
        got_lines = out.split("\n")
        got = []
        for i, pl in enumerate(got_lines):
            if cont and pl.endswith(cont):
                pl = pl[: -len(cont)]
            got.append(pl)
        e = norm_ws("".join(exp))
        g = norm_ws("".join(got))
        ndir = sum(1 for x in lines if isinstance(x, str) and x[:1] in "+-@^#")
        sctx.case(sample=dict(lines=lines, linelen=linelen, cont=cont, out=out) if ndir >= 2 else None,
                  nontrivial=("g2", json.dumps(lines), linelen, cont) if ndir >= 1 else None,
                  label=["g2"])
        why = None
        if cont == "" or True:
            # with a marker such as ' &' the marker characters are removed above only at
            # line ends, so the comparison is exact modulo whitespace
            if e != g:
                why = "write_lines text differs: expected %r got %r" % (e, g)
        if why is None and any(ch in out for ch in "\t\f\r"):
            # the break hints are directions to the writer, never part of the text it writes
            why = "hint-in-output: a break hint character (%s) reaches the written text" % ", ".join(
                repr(ch) for ch in "\t\f\r" if ch in out)
        if why is None:
            # column-one directives
            for x in lines:
                if isinstance(x, str):
                    for sub in x.split("\n"):
                        if sub[:1] in ("#", "^"):
                            t = sub if sub[0] == "#" else sub[1:]
                            if t not in got_lines:
                                why = "column-one line %r not emitted verbatim in column one" % t
        if why:
            sctx.failure("g2:" + why.split(":")[0], dict(kind="g2", lines=lines, linelen=linelen, cont=cont),
                         expected=e, observed=out, note=why)
            raise AssertionError(why)
    try:
        prop()
    except AssertionError:
        pass


# --------------------------------------------------------------------------
# G3 generated files

def _g3_job(job):
    kind, name, text, argv, lengths = job
    res = {"name": name, "runs": 0, "lines": 0, "fail": [], "nontrivial": []}
    base = shroud_run.run_yaml(text, argv, name=name)
    res["runs"] += 1
    if base.status != "ok":
        res["fail"].append(("g3:shroud-failed", dict(kind="g3", lib=name, yaml=text, argv=argv, lengths=None),
                            "shroud stops at default line length: " + base.describe()))
        return res
    # (a) Fortran 132-column limit at default settings
    for rel, data in sorted(base.files.items()):
        if lex.file_kind(rel) != "f":
            continue
        for no, ln in enumerate(data.decode("utf-8", "replace").split("\n"), 1):
            res["lines"] += 1
            code, _q = lex._f_strip_comment(ln)
            if ln.startswith("#"):
                continue
            if len(code.rstrip()) > 132:
                res["fail"].append(("g3:fortran-line-too-long", dict(kind="g3", lib=name, yaml=text, argv=argv, lengths=None),
                                    "%s:%d has %d columns of code (> 132) at default settings: %s"
                                    % (rel, no, len(code.rstrip()), ln[:160])))
                break
    # layout directives (tab / form feed / carriage return hints) steer the line formatter only: none may be
    # left in an emitted file (the inputs used here contain none themselves)
    if not any(c in text for c in "\t\f\r"):
        for rel, data in sorted(base.files.items()):
            if lex.file_kind(rel) in ("json", "log"):
                continue
            for ch, what in ((b"\r", "carriage return"), (b"\f", "form feed"), (b"\t", "tab")):
                k = data.find(ch)
                if k >= 0:
                    no = data.count(b"\n", 0, k) + 1
                    res["fail"].append(("g3:directive-in-output", dict(kind="g3", lib=name, yaml=text, argv=argv, lengths=None),
                                        "%s:%d contains a raw %s (layout directive written into the file): %r"
                                        % (rel, no, what, data.split(b"\n")[no - 1][:120])))
                    break
    try:
        base_tok = {rel: lex.code_tokens(rel, d) for rel, d in base.files.items()}
    except lex.LexError as e:
        raise core.HarnessError("lexer failed on %s: %s" % (name, e))
    # (b) token identity at other line lengths
    for (cl, fl) in lengths:
        av = list(argv) + ["--option", "C_line_length=%d" % cl, "--option", "F_line_length=%d" % fl]
        # numeric options must be given in the YAML (strings on the command line are a C14 matter)
        ytext = _with_options(text, dict(C_line_length=cl, F_line_length=fl))
        r = shroud_run.run_yaml(ytext, argv, name=name)
        res["runs"] += 1
        case = dict(kind="g3", lib=name, yaml=text, argv=argv, lengths=[cl, fl])
        if r.status != "ok":
            res["fail"].append(("g3:shroud-failed-at-length", case,
                                "shroud stops with C_line_length=%d F_line_length=%d: %s" % (cl, fl, r.describe())))
            continue
        if set(r.files) != set(base.files):
            res["fail"].append(("g3:file-set", case, "different set of files at line lengths %d/%d" % (cl, fl)))
            continue
        changed = 0
        for rel in sorted(r.files):
            if lex.file_kind(rel) in ("json", "log"):
                continue
            if r.files[rel] != base.files[rel]:
                changed += 1
            try:
                tok = lex.code_tokens(rel, r.files[rel])
            except lex.LexError as e:
                res["fail"].append(("g3:unlexable:" + lex.file_kind(rel), case,
                                    "%s cannot be tokenised at line lengths %d/%d (a token was split?): %s" % (rel, cl, fl, e)))
                continue
            if tok != base_tok[rel]:
                i = next((k for k, (a, b) in enumerate(zip(tok, base_tok[rel])) if a != b), min(len(tok), len(base_tok[rel])))
                res["fail"].append(("g3:tokens-differ:" + lex.file_kind(rel), case,
                                    "%s: token stream at line lengths %d/%d differs from default near token %d: %r vs %r"
                                    % (rel, cl, fl, i, tok[max(0, i - 3):i + 4], base_tok[rel][max(0, i - 3):i + 4])))
            # the configured length does not count the 2-column marker ' &', so the 132-column
            # consequence is only implied for lengths up to 130
            if lex.file_kind(rel) == "f" and fl <= 130:
                for no, ln in enumerate(r.files[rel].decode("utf-8", "replace").split("\n"), 1):
                    code, _q = lex._f_strip_comment(ln)
                    if not ln.startswith("#") and len(code.rstrip()) > 132:
                        res["fail"].append(("g3:fortran-line-too-long-at-length", case,
                                            "%s:%d has %d columns with F_line_length=%d" % (rel, no, len(code.rstrip()), fl)))
                        break
        if changed:
            res["nontrivial"].append((name, cl, fl))
        # each configured length governs its own language only: with the other length changed alone, the
        # Fortran files (resp. C files) must stay byte-identical
        cl2 = 95 if cl != 95 else 64
        fl2 = 88 if fl != 88 else 57
        for what, opts, kinds in (("C_line_length", dict(C_line_length=cl2, F_line_length=fl), ("f",)),
                                  ("F_line_length", dict(C_line_length=cl, F_line_length=fl2), ("c",))):
            r2 = shroud_run.run_yaml(_with_options(text, opts), argv, name=name)
            res["runs"] += 1
            if r2.status != "ok":
                continue
            for rel in sorted(r.files):
                if lex.file_kind(rel) in kinds and rel.startswith(("wrap", "types", "util")) and r2.files.get(rel) != r.files[rel]:
                    res["fail"].append(("g3:wrong-length-option:" + what, case,
                                        "%s changes when only %s changes (%s -> %s)" % (rel, what, (cl, fl), (opts["C_line_length"], opts["F_line_length"]))))
                    break
    return res


def _with_options(text, opts):
    """Add/override library-level options in YAML text (textual, keeps the rest)."""
    import yaml
    d = yaml.safe_load(text) or {}
    o = d.get("options") or {}
    o.update(opts)
    d["options"] = o
    return yaml.safe_dump(d, sort_keys=False, width=1000)


def run_g3(ctx, jobs):
    for res in core.pool_map(_g3_job, jobs):
        ctx.case(n=res["runs"], label="g3:run")
        ctx.extra["g3_fortran_lines_measured"] = ctx.extra.get("g3_fortran_lines_measured", 0) + res["lines"]
        for nt in res["nontrivial"]:
            ctx.case(n=0, nontrivial=("g3",) + tuple(nt),
                     sample=dict(kind="g3", lib=nt[0], C_line_length=nt[1], F_line_length=nt[2]))
        for key, case, note in res["fail"]:
            ctx.failure(key + ":" + res["name"] if key.startswith("g3:shroud") else key, case,
                        expected="same code at every line length; Fortran code lines <= 132 columns",
                        observed=note, note=note)


_WORDS = ["Property", "Value", "Container", "Element", "Boundary", "Condition", "Temperature", "Pressure", "Iteration",
          "Tolerance", "Coefficient", "Material", "Neighbor", "Quantity", "Reference", "Threshold"]
_OVL_SIGS = ["int {a}", "long {a}", "float {a}", "double {a}", "bool {a}", "const std::string &{a}", "int {a}, int {b}",
             "double {a}, double {b}"]


@st.composite
def stress_library(draw):
    """Libraries with long (but ordinary, well below 63 characters) identifiers, large overload sets on classes
    and at library level, and long argument lists: the shapes that make generated Fortran statements long."""
    import yaml

    def ident(nwords, lower_first=True):
        ws = [draw(st.sampled_from(_WORDS)) for _ in range(nwords)]
        s_ = "".join(ws)
        return (s_[0].lower() + s_[1:]) if lower_first else s_
    decls = []
    used = set()

    def fresh(nwords, lower_first=True):
        for _ in range(20):
            n = ident(nwords, lower_first)
            if n.lower() not in used:
                used.add(n.lower())
                return n
        n = ident(nwords, lower_first) + str(len(used))
        used.add(n.lower())
        return n
    for _c in range(draw(st.integers(0, 2))):
        cname = fresh(draw(st.integers(1, 2)), lower_first=False)[:16]
        inner = [{"decl": "%s()" % cname}]
        for _m in range(draw(st.integers(1, 2))):
            mname = "set" + fresh(draw(st.integers(1, 2)), lower_first=False)[:21]
            sigs = draw(st.lists(st.sampled_from(_OVL_SIGS), min_size=1, max_size=8, unique=True))
            a, b = fresh(2), fresh(2)
            for sg in sigs:
                inner.append({"decl": "void %s(%s)" % (mname, sg.format(a=a, b=b))})
        decls.append({"decl": "class " + cname, "declarations": inner})
    for _f in range(draw(st.integers(1, 3))):
        fname = fresh(draw(st.integers(2, 3)))[:40]
        kind = draw(st.sampled_from(["overload", "manyargs", "defaults"]))
        if kind == "overload":
            a, b = fresh(2), fresh(2)
            for sg in draw(st.lists(st.sampled_from(_OVL_SIGS), min_size=2, max_size=8, unique=True)):
                decls.append({"decl": "void %s(%s)" % (fname, sg.format(a=a, b=b))})
        elif kind == "manyargs":
            ps = []
            for _a in range(draw(st.integers(3, 8))):
                an = fresh(draw(st.integers(1, 3)))[:30]
                ps.append(draw(st.sampled_from(["int {n}", "double {n}", "const std::string &{n}", "bool {n}",
                                                "double *{n} +intent(out)", "const char *{n}",
                                                "std::string &{n} +intent(inout)"])).format(n=an))
            decls.append({"decl": "%s %s(%s)" % (draw(st.sampled_from(["void", "int", "const std::string &", "double"])),
                                                fname, ", ".join(ps))})
        else:
            an = fresh(2)
            ps = ["double %s" % an] + ["int %s%d = %d" % (fresh(2)[:24], k, k) for k in range(draw(st.integers(1, 4)))]
            decls.append({"decl": "int %s(%s)" % (fname, ", ".join(ps))})
    doc = {"library": fresh(draw(st.integers(1, 2)), lower_first=False)[:20], "cxx_header": "longnames.hpp",
           "options": {"wrap_python": False, "wrap_lua": False}, "declarations": decls}
    if draw(st.booleans()):
        doc["namespace"] = fresh(1).lower()
    return doc["library"], yaml.safe_dump(doc, sort_keys=False, width=1000)


def g3_jobs(ctx, n_corpus, n_gen, n_len):
    import random  # only to derive fixed job parameters from VERIF_SEED deterministically
    rnd = random.Random(ctx.seed)
    jobs = []
    ents = corpus.entries()
    if n_corpus < len(ents):
        ents = rnd.sample(ents, n_corpus)
    for e in ents:
        lengths = [(rnd.choice([30, 40, 50, 60, 80, 100, 132]), rnd.choice([30, 40, 50, 60, 80, 100, 132]))
                   for _ in range(n_len)]
        jobs.append(("corpus", e.name, e.text(), e.argv(), lengths))
    for i, (name, text) in enumerate(smallgen.sample_libraries(ctx.seed, n_gen)):
        lengths = [(rnd.choice([30, 40, 60, 100, 132]), rnd.choice([30, 40, 60, 100, 132])) for _ in range(n_len)]
        jobs.append(("gen", name, text, [], lengths))
    for i, (name, text) in enumerate(smallgen.sample(stress_library(), ctx.seed + 3, n_gen)):
        lengths = [(rnd.choice([40, 60, 72, 100, 132]), rnd.choice([40, 60, 72, 100, 130])) for _ in range(max(1, n_len // 2))]
        jobs.append(("long", name, text, [], lengths))
    return jobs


def run(ctx):
    quick = ctx.tier == "quick"
    ctx.rule = ("G1: Hypothesis logical lines (1-10 text parts joined by tab/form-feed hints, optional CR, "
                "linelen 5..132, indent 0..6, three continuation markers); non-trivial = the line was actually "
                "broken into >= 2 physical lines, distinct by (line, linelen, marker, indent). "
                "G2: write_lines directive sequences; non-trivial = contains a directive line. "
                "G3: corpus and generated libraries re-generated at drawn C_line_length/F_line_length; "
                "non-trivial = a run whose files differ bytewise from the default-length run.")
    ctx.assumptions = [
        "write_continue precondition taken from the code comment and its only caller: the logical line is "
        "non-empty and does not end in a form feed/tab hint",
        "write_lines is given directive lines whose text part is non-empty (every format string in shroud/ is)",
        "Fortran comment detection: '!' outside character literals; preprocessor lines skipped",
    ]
    n1 = 6000 if quick else 200000
    n2 = 3000 if quick else 60000
    core.run_sharded(ctx, "vf.props.c13", "shard_g1", n=n1 // core.NCPU)
    core.run_sharded(ctx, "vf.props.c13", "shard_g2", n=n2 // core.NCPU)
    jobs = g3_jobs(ctx, 10 if quick else 100, 6 if quick else 60, 2 if quick else 5)
    run_g3(ctx, jobs)


def replay(ctx, rec):
    case = rec["case"]
    if case["kind"] == "g1":
        w = _writer(case["linelen"], case["cont"], case["indent"])
        fp = io.StringIO()
        w.write_continue(fp, case["line"], case["spaces"])
        why = judge_continue(case["line"], case["linelen"], case["cont"], case["indent"],
                             case["spaces"], fp.getvalue())
        if why:
            ctx.failure(rec["key"], case, observed=fp.getvalue(), note=why)
    elif case["kind"] == "g2":
        sctx = core.ShardCtx(ctx.pid, ctx.tier, ctx.level, ctx.seed)
        _replay_g2(sctx, case)
        for f in sctx.fail_list:
            ctx.failure(**f)
    else:
        lengths = [tuple(case["lengths"])] if case.get("lengths") else []
        run_g3(ctx, [("replay", case["lib"], case["yaml"], case["argv"], lengths)])


def _replay_g2(sctx, case):
    lines = case["lines"]
    w = _writer(case["linelen"], case["cont"], 2)
    fp = io.StringIO()
    w.write_lines(fp, lines)
    out = fp.getvalue()
    exp = []
    for x in lines:
        if isinstance(x, int):
            continue
        for sub in x.split("\n"):
            t = expected_text_of(sub)
            if t.startswith("\r"):
                t = t[1:]
            exp.append(t.replace("\t", "").replace("\f", ""))
    got = []
    for pl in out.split("\n"):
        if case["cont"] and pl.endswith(case["cont"]):
            pl = pl[: -len(case["cont"])]
        got.append(pl)
    if norm_ws("".join(exp)) != norm_ws("".join(got)):
        sctx.failure("g2:replay", case, observed=out, note="write_lines text differs")
