"""C04 - Fortran bind(C) interfaces agree with the C functions and structs they bind to.

For every generated program (generated libraries of C01/C02 under language c/c++,
F_CFI off/on; the upstream corpus with its real headers) two independent views
are built and compared (translation validation):
  C view       clang -ast-dump=json of generated headers and sources (the user's
               header for a C library): prototypes, definitions, struct fields
  Fortran view the interface bodies / bind(C) types read from the generated
               modules, mapped to C parameter classes by the interoperability rules
Checked per binding label: a C function of that name is defined, same number of
arguments, every dummy interoperable with its parameter (kind and size, value vs
reference, character / pointer / struct / descriptor class), interoperable
result.  bind(C) derived types are compared with their C structs through
sizeof/offsetof (C) and c_sizeof/c_loc (Fortran) in compiled programs; the
SH_TYPE_* tables are evaluated by gcc and gfortran and compared name by name.
gfortran -fc-prototypes is a second opinion on the harness' own mapping.
"""
import os
import re
import shutil
import subprocess
import tempfile

from hypothesis import strategies as st

from .. import core, corpus, lex, iface, shroud_run, smallgen
from ..exec import xlib, upstream

LEVEL = "translation_validation"


def run_cmd(cmd, cwd, timeout=300):
    cp = subprocess.run(cmd, cwd=cwd, capture_output=True, text=True, timeout=timeout, errors="replace")
    return cp.returncode, cp.stdout, cp.stderr


def common_prefix(labels):
    """The dominant 'XXX_' prefix of the binding labels (the library's C_prefix)."""
    import collections
    c = collections.Counter(l.split("_")[0] + "_" for l in labels if "_" in l)
    if not c:
        return ""
    return c.most_common(1)[0][0]


def analyse(gen, incdirs, lang, user_headers):
    """gen: directory with generated files.  -> dict(problems=[(key, note)], ninterfaces, nargs, sample)"""
    problems = []
    files = sorted(os.listdir(gen))
    procs, ftypes = {}, {}
    for f in files:
        if lex.file_kind(f) == "f":
            p, t = iface.f_interfaces(open(os.path.join(gen, f), errors="replace").read())
            procs.update(p)
            ftypes.update(t)
    abstracts = {k[len("@abstract:"):]: v for k, v in procs.items() if k.startswith("@abstract:")}
    procs = {k: v for k, v in procs.items() if not k.startswith("@abstract:")}
    labels = sorted(procs)
    prefix = common_prefix(labels)
    cfuncs, cstructs, ctypedefs = {}, {}, {}
    inc = [gen] + list(incdirs)
    for f in files:
        path = os.path.join(gen, f)
        if f.endswith((".h", ".hpp")) and not f.startswith(("py", "lua")):
            decls = iface.clang_decls(path, "c" if f.endswith(".h") and lang == "c" else ("c" if f.endswith(".h") else "c++"), inc)
        elif f.endswith(".c") and not f.startswith(("py", "lua")):
            decls = iface.clang_decls(path, "c", inc)
        elif f.endswith(".cpp") and not f.startswith(("py", "lua")):
            if len(prefix) < 3:
                continue
            decls = iface.clang_decls(path, "c++", inc, filt=prefix)
        else:
            continue
        fn, stt, td = iface.c_functions(decls)
        for k, v in fn.items():
            if k in cfuncs and cfuncs[k]["defined"]:
                v["defined"] = True
            cfuncs[k] = v
        cstructs.update(stt)
        ctypedefs.update(td)
    user_funcs = {}
    for h in user_headers:
        if lang == "c":
            fn, stt, td = iface.c_functions(iface.clang_decls(h, "c", inc))
            user_funcs.update(fn)
            cstructs.update(stt)
            ctypedefs.update(td)
    if lang == "c":
        # the user's own C sources define functions their header may not declare
        for d in incdirs:
            if d == gen or not os.path.isdir(d):
                continue
            for f in sorted(os.listdir(d)):
                if f.endswith(".c") and not f.startswith(("test", "main")):
                    try:
                        fn, stt, td = iface.c_functions(iface.clang_decls(os.path.join(d, f), "c", inc))
                    except iface.IfaceError:
                        continue
                    for k, v in fn.items():
                        if v["defined"] and k not in user_funcs:
                            user_funcs[k] = v
    # typedef'd struct names -> struct tag
    struct_names = set(cstructs) | set(k for k, v in ctypedefs.items() if v.startswith("struct "))

    def struct_of(name):
        if name in cstructs:
            return name
        v = ctypedefs.get(name)
        if v and v.startswith("struct "):
            return v[len("struct "):]
        return name
    pairs = set()
    nargs = 0
    sample = None
    for label in labels:
        pr = procs[label]
        cf = cfuncs.get(label)
        where = "generated code"
        if label in user_funcs and (cf is None or not cf["defined"]):
            # a C library: Fortran binds to the user's own function, which the library defines
            cf = dict(user_funcs[label], defined=True)
            where = "user header"
        if cf is None and pr.get("conditional"):
            continue          # inside a preprocessor conditional: compiled only when the C side is, too
        if cf is None:
            # the user's own sources may define (extern "C") functions their header does not declare
            for d in [gen] + list(incdirs):
                if cf is not None or not os.path.isdir(d):
                    continue
                for f in sorted(os.listdir(d)):
                    if d == gen and f.startswith(("py", "lua")):
                        continue
                    if f.endswith((".cpp", ".c")) and not f.startswith(("test", "main")):
                        try:
                            fn, _s, _t = iface.c_functions(iface.clang_decls(os.path.join(d, f), "c" if f.endswith(".c") else "c++", inc, filt=label))
                        except iface.IfaceError:
                            continue
                        if label in fn and fn[label]["defined"]:
                            cf = fn[label]
                            where = "user source"
                            break
        if cf is None:
            problems.append(("undefined-c-function", "interface %s binds to %s, which no generated (or user) C code declares" % (pr["name"], label)))
            continue
        if where == "generated code" and not cf["defined"]:
            problems.append(("undefined-c-function", "interface %s binds to %s, which is declared but never defined" % (pr["name"], label)))
        if len(pr["args"]) != len(cf["params"]):
            problems.append(("arity", "%s: Fortran interface has %d dummy arguments %s, C function %s has %d parameters %s"
                             % (label, len(pr["args"]), pr["args"], label, len(cf["params"]), [p[1] for p in cf["params"]])))
            continue
        for i, (a, (cn, ct)) in enumerate(zip(pr["args"], cf["params"])):
            nargs += 1
            if a not in pr["decls"]:
                problems.append(("undeclared-dummy", "%s: dummy argument %s has no declaration" % (label, a)))
                continue
            decl, dims = pr["decls"][a]
            fc = iface.classify_f(decl, dims)
            cc = iface.classify_c(ct, struct_names)
            ok, pair = iface.compatible(fc, cc)
            if pair:
                pairs.add((pair[0], struct_of(pair[1])))
            if not ok:
                problems.append(("not-interoperable:%s-vs-%s" % (fc[0], cc[0]),
                                 "%s argument %d: Fortran '%s :: %s%s' (%s) is not interoperable with C '%s %s' (%s)"
                                 % (label, i + 1, " ".join(decl), a, "(%s)" % "".join(dims) if dims is not None else "", fc, ct, cn, cc)))
            elif sample is None and fc[0] not in ("val",):
                sample = dict(label=label, position=i + 1, fortran=" ".join(decl) + " :: " + a, c=ct, fclass=fc, cclass=cc)
            if ok and fc == ("funcptr",) and cc == ("funcptr",) and decl[0] == "procedure" and len(decl) > 2:
                # the callback itself: the abstract interface of the procedure dummy against the C function-pointer type
                ab = abstracts.get(decl[2].lower())
                fp = iface.funcptr_params(ct)
                if ab is not None and fp is not None:
                    nargs += len(ab["args"])
                    if len(ab["args"]) != len(fp[1]):
                        problems.append(("callback-arity", "%s argument %d: abstract interface %s has %d dummy arguments, the C type '%s' has %d parameters"
                                         % (label, i + 1, ab["name"], len(ab["args"]), ct, len(fp[1]))))
                    else:
                        for k, (aa, pt) in enumerate(zip(ab["args"], fp[1])):
                            if aa not in ab["decls"]:
                                continue
                            d2, dm2 = ab["decls"][aa]
                            fc2, cc2 = iface.classify_f(d2, dm2), iface.classify_c(pt, struct_names)
                            ok2, _p = iface.compatible(fc2, cc2)
                            if not ok2:
                                problems.append(("callback-not-interoperable:%s-vs-%s" % (fc2[0], cc2[0]),
                                                 "%s argument %d: parameter %d of the callback: Fortran '%s :: %s' (%s) is not interoperable with C '%s' (%s)"
                                                 % (label, i + 1, k + 1, " ".join(d2), aa, fc2, pt, cc2)))
        # result
        if pr["kind"] == "function":
            rname = pr["result"]
            if rname not in pr["decls"]:
                problems.append(("undeclared-result", "%s: function result %s has no declaration" % (label, rname)))
            else:
                decl, dims = pr["decls"][rname]
                fc = iface.classify_f(decl, dims, is_result=True)
                cc = iface.classify_c(cf["ret"], struct_names)
                ok, pair = iface.compatible(fc, cc)
                if not ok:
                    problems.append(("result-not-interoperable:%s-vs-%s" % (fc[0], cc[0]),
                                     "%s: Fortran result '%s' (%s) vs C return type '%s' (%s)" % (label, " ".join(decl), fc, cf["ret"], cc)))
        else:
            if iface.classify_c(cf["ret"], struct_names) != ("val", "void", 0):
                problems.append(("result-not-interoperable:subroutine", "%s is a Fortran subroutine but the C function returns '%s'" % (label, cf["ret"])))
    # same-named derived types
    for ft in ftypes:
        for cs in list(cstructs) + list(ctypedefs):
            if cs.lower() == ft.lower() or cs.lower() == "s_" + ft.lower():
                pairs.add((ft, struct_of(cs)))
    problems += compare_layouts(gen, inc, files, ftypes, cstructs, pairs, lang, user_headers)
    problems += compare_constants(gen, inc, files)
    return dict(problems=problems, ninterfaces=len(labels), nargs=nargs, sample=sample, pairs=sorted(pairs))


def compare_layouts(gen, inc, files, ftypes, cstructs, pairs, lang, user_headers):
    problems = []
    pairs = [(f, c) for f, c in pairs if f in ftypes and c in cstructs]
    if not pairs:
        return problems
    work = tempfile.mkdtemp(prefix="vf04l_", dir=core.scratch_root())
    try:
        # C side
        hdrs = [f for f in files if f.endswith(".h") and not f.startswith(("py", "lua"))] + [os.path.basename(h) for h in user_headers if lang == "c"]
        src = ["#include <stdio.h>", "#include <stddef.h>"] + ['#include "%s"' % h for h in hdrs] + ["int main(void) {"]
        for ft, cs in pairs:
            src.append('printf("S %s %%zu\\n", sizeof(struct %s));' % (ft, cs))
            for fname, _t in cstructs[cs]:
                src.append('printf("O %s %%zu\\n", offsetof(struct %s, %s));' % (ft, cs, fname))
        src.append("return 0; }")
        open(os.path.join(work, "l.c"), "w").write("\n".join(src) + "\n")
        cmd = ["gcc", "-std=c99", "-w"] + [x for d in inc + [os.path.dirname(h) for h in user_headers] for x in ("-I", d)] + ["l.c", "-o", "lc"]
        rc, so, se = run_cmd(cmd, work)
        if rc != 0:
            raise core.HarnessError("layout program (C) does not compile: " + se[-600:])
        rc, cout, se = run_cmd(["./lc"], work)
        # Fortran side: compile the modules, then a program using them
        mods = []
        for f in files:
            if lex.file_kind(f) == "f":
                mods.append(f)
        order = list(mods)
        for _ in range(len(mods) + 1):
            rest = []
            for f in order:
                rc, so, se = run_cmd(["gfortran", "-cpp", "-ffree-form", "-c", os.path.join(gen, f), "-J", work, "-I", work,
                                      "-o", os.path.join(work, f + ".o")], work)
                if rc != 0:
                    rest.append(f)
            if not rest or len(rest) == len(order):
                break
            order = rest
        modnames = []
        for f in mods:
            for st in lex.f_statements(open(os.path.join(gen, f), errors="replace").read()):
                if st[0] == "module" and len(st) == 2:
                    modnames.append((st[1], f))
        fsrc = ["program l", "  use iso_c_binding"]
        # a type may be private to a module that is not its owner: use the module that defines it
        type_mod = {}
        for mn, f in modnames:
            p, t = iface.f_interfaces(open(os.path.join(gen, f), errors="replace").read())
            for tn in t:
                type_mod.setdefault(tn, mn)
        used = sorted(set(type_mod[ft] for ft, _c in pairs if ft in type_mod))
        for mn in used:
            fsrc.append("  use %s" % mn)
        fsrc.append("  implicit none")
        for k, (ft, cs) in enumerate(pairs):
            fsrc.append("  type(%s), target :: v%d" % (ft, k))
        for k, (ft, cs) in enumerate(pairs):
            fsrc.append('  print "(A,1X,A,1X,I0)", "S", "%s", c_sizeof(v%d)' % (ft, k))
            for fname, decl, dims in ftypes[ft]:
                fsrc.append('  print "(A,1X,A,1X,I0)", "O", "%s", transfer(c_loc(v%d%%%s), 0_C_INTPTR_T) - transfer(c_loc(v%d), 0_C_INTPTR_T)'
                            % (ft, k, fname, k))
        fsrc.append("end program l")
        open(os.path.join(work, "l.f90"), "w").write("\n".join(fsrc) + "\n")
        rc, so, se = run_cmd(["gfortran", "-ffree-form", "-ffree-line-length-none", "-w", "-I", work, "l.f90", "-o", "lf"], work)
        if rc != 0:
            # private types cannot be used from outside: not comparable this way
            return problems
        rc, fout, se = run_cmd(["./lf"], work)

        def table(out):
            t = {}
            for ln in out.split("\n"):
                p = ln.split()
                if len(p) == 3:
                    t.setdefault(p[1].lower(), []).append((p[0], int(p[2])))
            return t
        tc, tf = table(cout), table(fout)
        for ft, cs in pairs:
            a, b = tf.get(ft.lower()), tc.get(ft.lower())
            if a is None or b is None:
                continue
            if a != b:
                problems.append(("struct-layout", "bind(C) type %s and C struct %s differ: Fortran (size, offsets) %s, C %s; Fortran fields %s, C fields %s"
                                 % (ft, cs, a, b, [f[0] for f in ftypes[ft]], [f[0] for f in cstructs[cs]])))
            else:
                # same offsets: also compare field kinds position-wise
                for (fn, decl, dims), (cn, ct) in zip(ftypes[ft], cstructs[cs]):
                    fc = iface.classify_f(decl + ["value"], dims) if dims is None else iface.classify_f(decl, dims)
                    cc = iface.classify_c(ct.split("[")[0], set(cstructs))
                    if fc[0] == "val" and cc[0] == "val" and (fc[2] != cc[2]):
                        problems.append(("struct-field-kind", "%s%%%s (%s) vs %s.%s (%s)" % (ft, fn, fc, cs, cn, cc)))
    finally:
        shutil.rmtree(work, ignore_errors=True)
    return problems


def compare_constants(gen, inc, files):
    """SH_TYPE_* tables: C macros vs Fortran parameters, each evaluated by its own compiler."""
    problems = []
    cnames = []
    chdr = None
    for f in files:
        if f.startswith("types") and f.endswith(".h"):
            txt = open(os.path.join(gen, f), errors="replace").read()
            cnames = re.findall(r"^#define\s+(SH_TYPE_\w+)\s", txt, re.M)
            chdr = f
    fstmt = None
    for f in files:
        if lex.file_kind(f) == "f":
            for st in lex.f_statements(open(os.path.join(gen, f), errors="replace").read()):
                if st[0] == "integer" and "parameter" in st and any(t.startswith("sh_type_") for t in st):
                    fstmt = st
                    break
    if not cnames or fstmt is None:
        return problems
    work = tempfile.mkdtemp(prefix="vf04c_", dir=core.scratch_root())
    try:
        src = ["#include <stdio.h>", '#include "%s"' % chdr, "int main(void) {"] + ['printf("%s %%d\\n", (int)(%s));' % (n, n) for n in cnames] + ["return 0; }"]
        open(os.path.join(work, "c.c"), "w").write("\n".join(src) + "\n")
        rc, so, se = run_cmd(["gcc", "-std=c99", "-w", "-I", gen, "c.c", "-o", "cc"], work)
        if rc != 0:
            raise core.HarnessError("constant program (C) does not compile: " + se[-400:])
        rc, cout, se = run_cmd(["./cc"], work)
        j = fstmt.index("::")
        names = [n for n, _d in iface.split_names(fstmt[j + 1:])]
        body = " ".join(fstmt[j + 1:])
        fsrc = ["program c", "  implicit none", "  integer, parameter :: " + body]
        for n in names:
            fsrc.append('  print "(A,1X,I0)", "%s", %s' % (n.upper(), n))
        fsrc.append("end program c")
        open(os.path.join(work, "c.f90"), "w").write("\n".join(fsrc) + "\n")
        rc, so, se = run_cmd(["gfortran", "-ffree-form", "-ffree-line-length-none", "-w", "c.f90", "-o", "cf"], work)
        if rc != 0:
            raise core.HarnessError("constant program (Fortran) does not compile: " + se[-400:])
        rc, fout, se = run_cmd(["./cf"], work)
        ct = dict(l.split() for l in cout.split("\n") if len(l.split()) == 2)
        ft = dict(l.split() for l in fout.split("\n") if len(l.split()) == 2)
        for n in sorted(set(ct) | set(ft)):
            if n in ct and n in ft and ct[n] != ft[n]:
                problems.append(("constant-table", "%s is %s in the C header but %s in the Fortran module" % (n, ct[n], ft[n])))
            elif n in ft and n not in ct:
                problems.append(("constant-table-missing", "%s exists in Fortran only" % n))
    finally:
        shutil.rmtree(work, ignore_errors=True)
    return problems


def second_opinion(gen, files):
    """gfortran -fc-prototypes for the modules: arity of every binding label must agree with our reading
    (a disagreement is a harness problem, never a violation)."""
    res = {}
    work = tempfile.mkdtemp(prefix="vf04p_", dir=core.scratch_root())
    try:
        for f in files:
            if lex.file_kind(f) != "f":
                continue
            rc, so, se = run_cmd(["gfortran", "-cpp", "-ffree-form", "-w", "-fsyntax-only", "-fc-prototypes", os.path.join(gen, f), "-J", work], work)
            for line in so.split("\n"):
                m = re.match(r"^[\w \*]+?\b(\w+) \(", line)
                if not m or "WARNING" in line or "/*" in line:
                    continue          # gfortran marks what it cannot render (CFI character, type(*), ...)
                depth, n, start, any_ = 0, 0, m.end() - 1, False
                for ch in line[start:]:
                    if ch == "(":
                        depth += 1
                    elif ch == ")":
                        depth -= 1
                        if depth == 0:
                            break
                    elif ch == "," and depth == 1:
                        n += 1
                    elif depth == 1 and not ch.isspace():
                        any_ = True
                args = line[start + 1:].split(")")[0].strip()
                res[m.group(1)] = 0 if (not any_ or args == "void") else n + 1
    finally:
        shutil.rmtree(work, ignore_errors=True)
    return res


# ---------------------------------------------------------------------------

def _gen_job(job):
    idx, lib, options = job
    work = tempfile.mkdtemp(prefix="vf04_", dir=core.scratch_root())
    out = dict(kind="gen", idx=idx, problems=[], ninterfaces=0, nargs=0, sample=None, case=dict(lib=lib, options=options))
    try:
        r = shroud_run.run_yaml(xlib.to_yaml(lib, options), [], workdir=work, name="xlib")
        if r.status != "ok":
            out["problems"].append(("shroud-stops", "Shroud stops: " + r.describe()))
            return out
        gen = os.path.join(work, "out")
        files0 = sorted(os.listdir(gen))
        for fn, text in xlib.subject_sources(lib).items():
            if fn.endswith((".h", ".hpp")):
                open(os.path.join(gen, fn), "w").write(text)
        res = analyse_dir(gen, files0, [gen], "c" if lib["language"] == "c" else "c++", [os.path.join(gen, lib["cheader"])])
        out.update(res)
    except iface.IfaceError as e:
        raise core.HarnessError(str(e))
    finally:
        shutil.rmtree(work, ignore_errors=True)
    return out


def _two_libraries(first_yaml, first_out, second_yaml, second_out):
    """Both libraries wrapped by one Python process, the way a build script calling Shroud twice does."""
    for y, o in ((first_yaml, first_out), (second_yaml, second_out)):
        try:
            shroud_run._shroud_main(["--outdir", o, "--logdir", o, y])
        except SystemExit as e:
            if e.code not in (None, 0):
                raise


FIRST_LIBRARY = """library: Earlier
cxx_header: earlier.hpp
format:
  C_prefix: ERL_
options:
  wrap_python: false
  wrap_lua: false
declarations:
- decl: void fillInts(std::vector<int> &v +intent(out))
- decl: void fillDoubles(std::vector<double> &v +intent(inout))
- decl: std::vector<long> makeLongs()
- decl: const std::string getName()
- decl: int *table(int *n +intent(out)+hidden) +dimension(n)+deref(allocatable)
- decl: class Thing
  declarations:
  - decl: Thing()
  - decl: ~Thing()
  - decl: int count() const
"""


def _second_job(job):
    """The same comparison for a library that is the SECOND one wrapped by its process: every interface of its
    module must still bind to a function its own C code defines, with matching arguments."""
    idx, lib, options = job
    work = tempfile.mkdtemp(prefix="vf04s_", dir=core.scratch_root())
    out = dict(kind="second", idx=idx, problems=[], ninterfaces=0, nargs=0, sample=None, case=dict(second=True, lib=lib, options=options))
    try:
        gen = os.path.join(work, "out")
        first = os.path.join(work, "first")
        os.makedirs(gen)
        os.makedirs(first)
        open(os.path.join(work, "earlier.yaml"), "w").write(FIRST_LIBRARY)
        open(os.path.join(work, "xlib.yaml"), "w").write(xlib.to_yaml(lib, options))
        res = shroud_run.in_child(_two_libraries, (os.path.join(work, "earlier.yaml"), first, os.path.join(work, "xlib.yaml"), gen), cwd=work)
        if res["status"] != "ok":
            out["problems"].append(("shroud-stops", "Shroud stops on the second library of the process: %s %s"
                                    % (res.get("exc_type"), (res.get("exc_msg") or "")[:400])))
            return out
        files0 = sorted(os.listdir(gen))
        for fn, text in xlib.subject_sources(lib).items():
            if fn.endswith((".h", ".hpp")):
                open(os.path.join(gen, fn), "w").write(text)
        res = analyse_dir(gen, files0, [gen], "c" if lib["language"] == "c" else "c++", [os.path.join(gen, lib["cheader"])])
        out.update(res)
    except iface.IfaceError as e:
        raise core.HarnessError(str(e))
    finally:
        shutil.rmtree(work, ignore_errors=True)
    return out


@st.composite
def struct_library(draw):
    """struct.rst: structs in the one-line form or as a declarations: list (struct.yaml Cstruct_ptr), members of
    mixed scalar types; a member may carry options of its own (a language switched off for it): whatever is
    switched off for a member, the bind(C) derived type must keep the layout of the C struct."""
    lang = draw(st.sampled_from(["c", "c++"]))
    decls, hdr = [], ["#ifndef STLIB_H", "#define STLIB_H"]
    for k in range(draw(st.integers(1, 2))):
        name = "Rec%d" % (k + 1)
        fields = [(draw(st.sampled_from(["int", "double", "long", "float", "short", "char"])), "f%d" % i)
                  for i in range(draw(st.integers(2, 5)))]
        hdr.append("struct %s { %s };" % (name, " ".join("%s %s;" % f for f in fields)))
        hdr.append("typedef struct %s %s;" % (name, name))
        if draw(st.booleans()):
            decls.append({"decl": "struct %s { %s };" % (name, " ".join("%s %s;" % f for f in fields))})
        else:
            members = []
            for T, fn in fields:
                m = {"decl": "%s %s" % (T, fn)}
                o = draw(st.sampled_from([None, None, None, {"wrap_fortran": False}, {"wrap_python": False}, {"wrap_c": False, "wrap_fortran": False}]))
                if o:
                    m["options"] = o
                members.append(m)
            decls.append({"decl": "struct " + name, "declarations": members})
        decls.append({"decl": "int use%s(%s *arg)" % (name, name)})
        hdr.append("int use%s(%s *arg);" % (name, name))
    # declarations.rst "Function Pointers": callbacks with C compatible parameters (named or abstract declarators)
    for k in range(draw(st.integers(0, 2))):
        cps = [draw(st.sampled_from(["int {n}", "double {n}", "void *{n}", "int *{n}", "const char *{n}", "long {n}", "void *"]))
               .format(n="p%d" % j) for j in range(draw(st.integers(0, 3)))]
        rt = draw(st.sampled_from(["void", "int", "double"]))
        proto = "%s visit%d(%s (*cb)(%s), void *ctx)" % (draw(st.sampled_from(["void", "int"])), k, rt, ", ".join(cps))
        decls.append({"decl": proto})
        hdr.append(proto + ";")
    hdr.append("#endif")
    doc = {"library": "StLib", "language": lang, "cxx_header": "stlib.h", "options": {"wrap_python": False, "wrap_lua": False},
           "declarations": decls}
    import yaml
    return lang, yaml.safe_dump(doc, sort_keys=False, width=1000), "\n".join(hdr) + "\n"


def _struct_job(job):
    idx, lang, ytext, header = job[:4]
    hname = job[4] if len(job) > 4 else "stlib.h"
    work = tempfile.mkdtemp(prefix="vf04s_", dir=core.scratch_root())
    out = dict(kind="struct" if hname == "stlib.h" else "generic", idx=idx, problems=[], ninterfaces=0, nargs=0, sample=None,
               case=dict(struct_lib=dict(lang=lang, yaml=ytext, header=header, hname=hname)))
    try:
        r = shroud_run.run_yaml(ytext, [], workdir=work, name="stlib")
        if r.status != "ok":
            out["problems"].append(("shroud-stops", "Shroud stops: " + r.describe()))
            return out
        gen = os.path.join(work, "out")
        files0 = sorted(os.listdir(gen))
        open(os.path.join(gen, hname), "w").write(header)
        out.update(analyse_dir(gen, files0, [gen], "c" if lang == "c" else "c++", [os.path.join(gen, hname)]))
    except iface.IfaceError as e:
        raise core.HarnessError(str(e))
    finally:
        shutil.rmtree(work, ignore_errors=True)
    return out


def analyse_dir(gen, files0, incdirs, lang, user_headers):
    # restrict to the generated files (the user's header was copied next to them)
    keep = set(files0)
    real_listdir = os.listdir

    def only_generated(p):
        return [f for f in real_listdir(p) if f in keep] if p == gen else real_listdir(p)
    os.listdir = only_generated
    try:
        res = analyse(gen, incdirs, lang, user_headers)
    finally:
        os.listdir = real_listdir
    so = second_opinion(gen, files0)
    res["second_opinion_checked"] = 0
    procs = {}
    for f in files0:
        if lex.file_kind(f) == "f":
            p, _t = iface.f_interfaces(open(os.path.join(gen, f), errors="replace").read())
            procs.update(p)
    for label, n in so.items():
        if label in procs:
            res["second_opinion_checked"] += 1
            if len(procs[label]["args"]) != n:
                raise core.HarnessError("our reading of interface %s (%d args) disagrees with gfortran -fc-prototypes (%d)"
                                        % (label, len(procs[label]["args"]), n))
    return res


def _corpus_job(name):
    out = dict(kind="corpus", idx=name, problems=[], ninterfaces=0, nargs=0, sample=None, case=dict(corpus=name))
    gen = tempfile.mkdtemp(prefix="vf04c_", dir=core.scratch_root())
    try:
        r = upstream.generate(name, gen)
        if r.status != "ok":
            out["problems"].append(("shroud-stops", "Shroud stops: " + r.describe()))
            return out
        e = corpus.by_name(name)
        doc_lang = e.language_arg()
        import yaml
        doc = yaml.safe_load(e.text())
        lang = doc_lang or doc.get("language", "c++")
        lang = "c" if lang == "c" else "c++"
        incs = []
        hdrs = []
        for cand in (name, e.yaml[:-5], e.yaml[:-5].split("-")[0]):
            d = os.path.join(upstream.RUN, cand)
            if os.path.isdir(d) and d not in incs:
                incs.append(d)
        hname = doc.get("cxx_header")
        if hname:
            for h in str(hname).split():
                for d in incs:
                    if os.path.exists(os.path.join(d, h)):
                        hdrs.append(os.path.join(d, h))
                        break
        if not incs or (hname and not hdrs):
            out["skipped"] = True
            return out
        files0 = sorted(os.listdir(gen))
        try:
            res = analyse_dir(gen, files0, incs, lang, hdrs)
            out.update(res)
        except iface.IfaceError as ex:
            out["skipped"] = True
            out["why"] = str(ex)[:300]
    finally:
        shutil.rmtree(gen, ignore_errors=True)
    return out


def run(ctx):
    quick = ctx.tier == "quick"
    ctx.rule = ("programs = generated wrapper sets (Hypothesis library models x {language c, c++} x {F_CFI off, on}) and corpus "
                "entries with their real headers; per program every bind(C) interface is compared argument by argument with "
                "the clang view of the C function of the same binding label; evaluations = dummy-argument / parameter pairs "
                "compared; non-trivial = an interface with >= 1 argument; distinct by normalised signature")
    ctx.assumptions = ["clang 14 JSON AST is the C view, our Fortran reader + Fortran 2018 interoperability rules the Fortran view; "
                       "gfortran -fc-prototypes cross-checks the reader's arity on everything it renders",
                       "signedness is ignored (not expressible in Fortran, documented); type(C_PTR) by value matches any object "
                       "pointer; a struct pointer matches a struct pointer of equal layout (layouts compared by compiled programs)",
                       "x86-64, gcc/gfortran 12"]
    jobs = []
    n = 10 if quick else 150
    for lang in ("c++", "c"):
        libs = smallgen.sample(xlib.library(lang=lang, for_fortran=True), ctx.seed + len(jobs), n)
        for lib in libs:
            for options in (None, {"F_CFI": True}):
                # (std::vector with F_CFI: recorded finding of C05, excluded by construction)
                jobs.append((len(jobs), xlib.without_vectors(lib)[0] if options else lib, options))
    # function templates, every shape in turn
    for k, shape in enumerate(xlib.TMPL_SHAPES):
        for lib in smallgen.sample(xlib.library(lang="c++", for_fortran=True, with_template=shape, with_overloads=False,
                                                with_class=False, nfunc=(0, 2)), ctx.seed + 500 + k, 3 if quick else 30):
            jobs.append((len(jobs), lib, None))
    results = core.pool_map(_gen_job, jobs)
    # the same libraries as the second library of their process (a build script that wraps two libraries)
    results += core.pool_map(_second_job, [j for j in jobs if j[2] is None][:(12 if quick else 150)])
    results += core.pool_map(_struct_job, [(i,) + t for i, t in enumerate(smallgen.sample(struct_library(), ctx.seed + 31, 16 if quick else 200))])
    # fortran_generic / assumed-rank libraries (extra bind(C) interfaces for rank-changing variants; C01 executes them)
    from ..exec import generic_e2e
    gjobs = []
    for lang in ("c++", "c"):
        for cs in smallgen.sample(generic_e2e.case(lang), ctx.seed + 41, 6 if quick else 80):
            for options in (None, {"F_CFI": True}):
                gjobs.append((len(gjobs), lang, generic_e2e.yaml_text(cs, options), generic_e2e.subject(cs)[0], "genlib.h"))
    results += core.pool_map(_struct_job, gjobs)
    names = sorted(set(upstream.target_lists()["fortran"]))
    if quick:
        import random  # deterministic corpus subset from VERIF_SEED
        names = sorted(random.Random(ctx.seed).sample(names, 10))
    results += core.pool_map(_corpus_job, names)
    programs = 0
    sigs = set()
    for out in results:
        if out.get("skipped"):
            ctx.labels["corpus-skipped"] += 1
            continue
        programs += 1
        ctx.case(n=max(1, out["nargs"]), label="program:" + out["kind"])
        ctx.extra["interfaces_compared"] = ctx.extra.get("interfaces_compared", 0) + out["ninterfaces"]
        ctx.extra["second_opinion_interfaces"] = ctx.extra.get("second_opinion_interfaces", 0) + out.get("second_opinion_checked", 0)
        if out["ninterfaces"]:
            ctx.case(n=0, nontrivial=(out["kind"], str(out["idx"]), out["ninterfaces"], out["nargs"]))
        if out["sample"]:
            ctx.case(n=0, sample=out["sample"])
        for key, note in out["problems"]:
            ctx.failure(key, out["case"], expected="interoperable interface / identical layout", observed=note, note=note)
    ctx.extra["programs"] = programs
    # shared constant tables, enumerations: the enumerators of the generated C header and the parameters of the
    # generated module, each evaluated by its own compiler, must agree name by name (generator of C11)
    from . import c11

    @st.composite
    def batch(draw):
        return [draw(c11.enum(i)) for i in range(20)]
    for out in core.pool_map(c11._job, [(i, "EnumLib", b) for i, b in
                                        enumerate(smallgen.sample(batch(), ctx.seed + 77, 6 if quick else 60))]):
        for text, cname, cval, fname, fval, e in out.get("tables", []):
            ctx.case(label="enum-constant")
            if cval != fval and "error" not in (cval, fval):
                note = "%s: %s = %s in the generated C header but %s = %s in the generated Fortran module" % (text, cname, cval, fname, fval)
                ctx.failure("enum-table:c-vs-fortran", dict(enum_table=dict(lib="EnumLib", enums=[e])),
                            expected="same value on both sides", observed=note, note=note)
    ctx.extra["disagreements_checked"] = len(ctx.violations)


def replay(ctx, rec):
    c = rec["case"]
    if "enum_table" in c:
        from . import c11
        out = c11._job((0, c["enum_table"]["lib"], c["enum_table"]["enums"]))
        for text, cname, cval, fname, fval, e in out.get("tables", []):
            if cval != fval and "error" not in (cval, fval):
                note = "%s: %s = %s in the generated C header but %s = %s in the generated Fortran module" % (text, cname, cval, fname, fval)
                ctx.failure("enum-table:c-vs-fortran", c, observed=note, note=note)
        return
    if "struct_lib" in c:
        out = _struct_job((0, c["struct_lib"]["lang"], c["struct_lib"]["yaml"], c["struct_lib"]["header"], c["struct_lib"].get("hname", "stlib.h")))
        for key, note in out["problems"]:
            ctx.failure(key, c, observed=note, note=note)
        return
    if c.get("second"):
        out = _second_job((0, c["lib"], c["options"]))
    else:
        out = _corpus_job(c["corpus"]) if "corpus" in c else _gen_job((0, c["lib"], c["options"]))
    for key, note in out["problems"]:
        ctx.failure(key, c, observed=note, note=note)
