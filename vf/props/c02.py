"""C02 - the generated C API of a C++ library is call-equivalent to the C++ API.

(1) generated libraries (vf/exec/xlib.py): an instrumented C++ subject library
    logs what it receives and returns scripted values; a C99 driver written
    against the documented C names and signatures calls every function; the
    combined stream must equal the reference model's prediction.
(2) upstream executed C tests (regression/run/*/testc.c, listed in the upstream
    Makefile) built against wrappers generated from the current tree.
"""
from .. import core
from ..exec import callcheck, members_e2e, structs_e2e, upstream

LEVEL = "exploration"


def _up_job(name):
    return upstream.build_and_run(name, "c")


def run(ctx):
    quick = ctx.tier == "quick"
    ctx.rule = ("Hypothesis library models (4-10 functions, 0-3 parameters from the rows N1 N2in/out/inout N2ref B1 S1 S3 N3 "
                "with implied sizes and dimensions, results void/native/bool/char/char*/std::string, 2-4 scripted calls each "
                "with boundary values, blank-containing strings, zero-length arrays) x configuration; evaluations = calls "
                "executed; non-trivial = a call with >= 1 argument or a result; distinct by (rows, types, result, config)")
    ctx.assumptions = ["C names computed from the documented template {C_prefix}{underscore_name}{function_suffix}",
                       "a std::string returned by value has no plain C wrapper (documented) and is not used by the C driver",
                       "C driver compiled as C99 against the generated headers only; subject library as C++11",
                       "upstream testc programs are an additional fixed replay tier, not generated input"]
    configs = [None, {"debug": True}]
    callcheck.run_engine(ctx, "c", configs, 32 if quick else 800, ["c++"])
    # focused families (a few dozen draws alone leave them thin): small libraries that always carry an overload set and
    # a default-argument function; small libraries that always carry a class
    callcheck.run_engine(ctx, "c", [None], 16 if quick else 300, ["c++"], with_overloads=True, nfunc=(1, 2), with_class=False)
    callcheck.run_engine(ctx, "c", [None], 12 if quick else 200, ["c++"], with_class=True, with_overloads=False, nfunc=(0, 2))
    callcheck.run_template_family(ctx, "c", 4 if quick else 50)
    # struct arguments and results (struct.rst): by value, by pointer in / out / inout, result by value and by pointer
    structs_e2e.run_structs(ctx, "c", 8 if quick else 150)
    # class member variables through the generated getter / setter functions (also of a derived class)
    members_e2e.run_members(ctx, "c", 4 if quick else 80)
    names = upstream.target_lists()["c"]
    for name, res in zip(names, core.pool_map(_up_job, names)):
        ctx.case(label="upstream-testc")
        if res["stage"] != "ok":
            ctx.failure("upstream-testc:%s:%s" % (name, res["stage"]), dict(upstream=name, kind="c"),
                        expected="upstream C test passes against freshly generated wrappers", observed=res["detail"],
                        note="regression/run/%s testc: %s: %s" % (name, res["stage"], res["detail"][:800]))


def replay(ctx, rec):
    c = rec["case"]
    if "upstream" in c:
        res = upstream.build_and_run(c["upstream"], "c")
        if res["stage"] != "ok":
            ctx.failure(rec["key"], c, observed=res["detail"], note=res["detail"][:800])
        return
    if "struct_case" in c:
        return structs_e2e.replay_case(ctx, rec)
    if "member_case" in c:
        return members_e2e.replay_case(ctx, rec)
    callcheck.replay_case(ctx, rec)
