"""C01 - Fortran wrapper calls are equivalent to calling the library directly.

(1) generated libraries (vf/exec/xlib.py) under {language c, c++} x {F_CFI off,
    on} x {debug off, on}: Fortran driver against the documented module API,
    instrumented subject library, reference-model stream comparison; the same
    driver source serves all configurations of a model, so the user-facing API
    and behaviour may not depend on language or F_CFI.
(1b) fortran_generic variants and assumed-rank arguments (vf/exec/generic_e2e.py): every variant
    called through the generic name and through its specific name.
(2) upstream executed Fortran tests (regression/run/*/main.f with FRUIT
    assertions, listed in the upstream Makefile) against wrappers generated
    from the current tree, also with debug toggled.
"""
from .. import core
from ..exec import callcheck, generic_e2e, members_e2e, structs_e2e, upstream

LEVEL = "exploration"


def _up_job(job):
    name, opts = job
    edit = None
    if opts:
        from .. import meta

        def edit(doc):
            return meta.with_options(doc, opts)
    return upstream.build_and_run(name, "fortran", yaml_edit=edit)


def run(ctx):
    quick = ctx.tier == "quick"
    ctx.rule = ("Hypothesis library models (4-10 functions, 0-3 parameters from the rows N1 N2in/out/inout N2ref B1 S1 S3 N3 "
                "with implied sizes and dimensions, results void/native/bool/char/char* (allocatable and +len)/std::string "
                "(value, reference, +len), 2-4 scripted calls each with integer/floating boundary values, empty/full-length/"
                "blank-containing strings, zero-length arrays) x {language c, c++} x {F_CFI} x {debug}; evaluations = calls "
                "executed; non-trivial = a call with >= 1 argument or a result; distinct by (rows, types, result, config)")
    ctx.assumptions = ["Fortran kinds from the documented C type -> kind table; unsigned values kept in the signed range "
                       "(Fortran has no unsigned integers)",
                       "floating values are exactly representable and compared as bit patterns",
                       "gfortran 12; F_CFI as implemented by gfortran 12",
                       "upstream FRUIT programs are an additional fixed replay tier, not generated input"]
    configs = [None, {"F_CFI": True}, {"debug": True}] if quick else [None, {"F_CFI": True}, {"debug": True}, {"F_CFI": True, "debug": True}]
    callcheck.run_engine(ctx, "fortran", configs, 16 if quick else 400, ["c++", "c"])
    # focused families: overload / default-argument dispatch; classes
    callcheck.run_engine(ctx, "fortran", [None, {"F_CFI": True}], 12 if quick else 200, ["c++"], with_overloads=True, nfunc=(1, 2), with_class=False)
    callcheck.run_engine(ctx, "fortran", [None], 10 if quick else 150, ["c++"], with_class=True, with_overloads=False, nfunc=(0, 2))
    callcheck.run_template_family(ctx, "fortran", 3 if quick else 40, [None, {"F_CFI": True}])
    structs_e2e.run_structs(ctx, "fortran", 6 if quick else 120)
    # fortran_generic variants (coercion, scalar-or-array, with a string argument) and assumed-rank arguments,
    # each called through the documented generic name (fortran.rst "Generic Interfaces")
    generic_e2e.run_generics(ctx, 3 if quick else 60, [None, {"F_CFI": True}] if quick else [None, {"F_CFI": True}, {"debug": True}])
    # class member variables (getters / setters, +readonly, +name) and inherited members / methods through a type extension
    members_e2e.run_members(ctx, "fortran", 4 if quick else 80)
    names = upstream.target_lists()["fortran"]
    jobs = [(n, None) for n in names]
    if not quick:
        jobs += [(n, {"debug": False}) for n in names]
    for (name, opts), res in zip(jobs, core.pool_map(_up_job, jobs)):
        ctx.case(n=max(1, res["asserts"]), label="upstream-fruit")
        if res["stage"] != "ok":
            ctx.failure("upstream-fortran:%s:%s" % (name, res["stage"]), dict(upstream=name, kind="fortran", options=opts),
                        expected="upstream FRUIT test passes against freshly generated wrappers", observed=res["detail"],
                        note="regression/run/%s main.f (%s): %s: %s" % (name, opts, res["stage"], res["detail"][:800]))


def replay(ctx, rec):
    c = rec["case"]
    if "upstream" in c:
        res = _up_job((c["upstream"], c.get("options")))
        if res["stage"] != "ok":
            ctx.failure(rec["key"], c, observed=res["detail"], note=res["detail"][:800])
        return
    if "struct_case" in c:
        return structs_e2e.replay_case(ctx, rec)
    if "member_case" in c:
        return members_e2e.replay_case(ctx, rec)
    if "generic_case" in c:
        return generic_e2e.replay_case(ctx, rec)
    callcheck.replay_case(ctx, rec)
