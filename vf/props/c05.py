"""C05 - every accepted input yields wrapper sources that compile and link.

(1) generated libraries (vf/exec/xlib.py: real subject library, so the link step
    is real) in three families - C/Fortran rows, Python-admitted rows, Lua subset -
    x Hypothesis-drawn configuration {F_CFI, debug, doxygen,
    show_splicer_comments, literalinclude2, C_line_length in {40, 72, 100, 132},
    F_line_length in {40, 72, 100, 130}}: Shroud must exit 0; every wrap*/types* header compiles on
    its own as C99 and as C++11; every source compiles; Fortran modules compile
    in --ffiles order; everything links with the subject library and an empty main
    under -Wl,--no-undefined; the Python extension imports under LD_BIND_NOW=1;
    Lua sources compile and link against the reference emulator headers.
(2) upstream corpus (metamorphic): an entry that builds in its upstream default
    configuration must also build with drawn option variants (upstream Makefiles,
    real library sources); Python and Lua sources of every corpus entry with a run
    directory must compile (numpy variants against the numpy headers in .deps).
"""
import os
import re
import shutil
import subprocess
import sysconfig
import tempfile

from hypothesis import strategies as st

from .. import core, corpus, meta, shroud_run, smallgen
from ..exec import xlib, drivers, pyfront, luafront, upstream

LEVEL = "exploration"

LENGTHS = [40, 72, 100, 132, 200]    # (input.rst: a large C_line_length when the C sources go through a formatter)
# The configured Fortran length does not count the continuation marker ' &' (see property C13), and a
# Fortran line may not exceed 132 columns: 130 is the largest value that can give valid free-form source
F_LENGTHS = [40, 72, 100, 130]


@st.composite
def config(draw):
    c = {}
    for k in ("debug", "doxygen", "show_splicer_comments", "literalinclude2", "F_CFI"):
        if draw(st.booleans()):
            c[k] = draw(st.booleans())
    if draw(st.booleans()):
        c["C_line_length"] = draw(st.sampled_from(LENGTHS))
    if draw(st.booleans()):
        c["F_line_length"] = draw(st.sampled_from(F_LENGTHS))
    return c


def run_cmd(cmd, cwd, timeout=300, env=None, want_stdout=False):
    cp = subprocess.run(cmd, cwd=cwd, capture_output=True, text=True, timeout=timeout, env=env, errors="replace")
    if want_stdout:
        return cp.returncode, cp.stdout
    return cp.returncode, (cp.stderr or cp.stdout)


def first_error(text):
    lines = [l for l in text.split("\n") if "rror" in l or "undefined" in l]
    return " | ".join(lines[:4])[:700] or text[-500:]


def build_family(work, lib, family, options):
    """-> list of (key, note).  family: 'cf' | 'py' | 'lua'."""
    problems = []
    opts = dict(options)
    opts.update({"wrap_c": True, "wrap_fortran": True, "wrap_python": family == "py", "wrap_lua": family == "lua"})
    if family == "py":
        opts["PY_array_arg"] = "list"
    r = shroud_run.run_yaml(xlib.to_yaml(lib, opts), ["--cfiles", "cfiles.txt", "--ffiles", "ffiles.txt"], workdir=work, name="xlib")
    if r.status != "ok":
        return [("shroud-stops:%s" % (r.exc_type or ""), "Shroud stops on an admitted-grammar library: " + r.describe())]
    outd = os.path.join(work, "out")
    gen = sorted(os.listdir(outd))
    for fn, text in xlib.subject_sources(lib).items():
        with open(os.path.join(outd, fn), "w") as fp:
            fp.write(text)
    cxx = lib["language"] == "c++"
    pyinc = sysconfig.get_paths()["include"]
    objs = []
    # headers on their own, from C and from C++
    for h in gen:
        if re.match(r"^(wrap|types).*\.h$", h):
            for cmd, what in ((["gcc", "-std=c99", "-x", "c"], "C"), (["g++", "-std=c++11", "-x", "c++"], "C++")):
                rc, err = run_cmd(cmd + ["-fsyntax-only", "-w", "-I", ".", h], outd)
                if rc != 0:
                    problems.append(("header-alone:%s" % what, "%s does not compile on its own as %s: %s" % (h, what, first_error(err))))

    def cc(cmd, src, extra=()):
        obj = os.path.splitext(os.path.basename(src))[0] + ".o"
        rc, err = run_cmd(cmd + ["-w", "-fPIC", "-I", "."] + list(extra) + ["-c", src, "-o", obj], outd)
        if rc != 0:
            problems.append(("compile:%s" % kind_of_file(src), "%s does not compile: %s" % (src, first_error(err))))
            return False
        objs.append(obj)
        return True
    cc(["gcc", "-std=c99"], "vf_support.c")
    cc(["g++", "-std=c++11"] if cxx else ["gcc", "-std=c99"], "xlib.cpp" if cxx else "xlib.c")
    cf_objs = list(objs)
    for src in gen:
        if src.startswith(("py", "lua")):
            continue
        if src.endswith(".cpp"):
            if cc(["g++", "-std=c++11"], src):
                cf_objs.append(objs[-1])
        elif src.endswith(".c"):
            if cc(["gcc", "-std=c99"], src):
                cf_objs.append(objs[-1])
    # Fortran in the order of --ffiles
    fl = os.path.join(work, "ffiles.txt")
    ffiles = open(fl).read().split() if os.path.exists(fl) else []
    for src in ffiles:
        src = os.path.basename(src)
        if cc(["gfortran", "-cpp", "-ffree-form"], src):
            cf_objs.append(objs[-1])
    if problems:
        return problems
    with open(os.path.join(outd, "vf_main.f90"), "w") as fp:
        fp.write("program vf_main\nend program vf_main\n")
    rc, err = run_cmd(["gfortran", "-ffree-form", "vf_main.f90"] + cf_objs + ["-o", "vf_main", "-lstdc++", "-Wl,--no-undefined"], outd)
    if rc != 0:
        problems.append(("link:c-fortran", "C/Fortran wrappers do not link with the library: " + first_error(err)))
    if family == "py":
        pobjs = []
        for src in gen:
            if src.startswith("py") and src.endswith((".cpp", ".c")):
                if cc(["g++", "-std=c++11"] if src.endswith(".cpp") else ["gcc", "-std=c99"], src, ["-I", pyinc]):
                    pobjs.append(objs[-1])
        if not any(p[0].startswith("compile:python") for p in problems):
            rc, err = run_cmd(["g++", "-shared"] + pobjs + ["vf_support.o", "xlib.o", "-o", "xlib.so", "-Wl,--no-undefined",
                               "-L" + sysconfig.get_config_var("LIBDIR"), "-lpython3.12"], outd)
            if rc != 0:
                problems.append(("link:python", "Python extension does not link: " + first_error(err)))
            else:
                env = dict(os.environ, PYTHONPATH=outd, LD_LIBRARY_PATH=sysconfig.get_config_var("LIBDIR"), LD_BIND_NOW="1")
                rc, err = run_cmd([pyfront.PY, "-c", "import xlib"], outd, env=env)
                if rc != 0:
                    problems.append(("import:python", "extension does not import: " + err[-500:]))
    if family == "lua":
        lobjs = []
        for src in gen:
            if src.startswith("lua") and src.endswith((".cpp", ".c")):
                if cc(["g++", "-std=c++11"], src, ["-I", luafront.EMU]):
                    lobjs.append(objs[-1])
        if lobjs:
            with open(os.path.join(outd, "vf_lmain.cpp"), "w") as fp:
                fp.write('#include "lua.h"\nextern "C" int luaopen_xlib(lua_State *L);\nint main(void) { return luaopen_xlib == 0; }\n')
            cc(["g++", "-std=c++11"], "vf_lmain.cpp", ["-I", luafront.EMU])
            cc(["g++", "-std=c++11"], os.path.join(luafront.EMU, "luaemu.cpp"), ["-I", luafront.EMU])
            rc, err = run_cmd(["g++"] + lobjs + ["vf_lmain.o", "luaemu.o",
                               "vf_support.o", "xlib.o", "-o", "vf_lmain", "-Wl,--no-undefined"], outd)
            if rc != 0:
                problems.append(("link:lua", "Lua binding does not link: " + first_error(err)))
    return problems


def kind_of_file(src):
    if src.startswith("py"):
        return "python"
    if src.startswith("lua"):
        return "lua"
    if src.endswith(".f"):
        return "fortran"
    return "c"


def build_smallgen(work, model, options):
    """Family 'sg': admitted-grammar declarations of vf/smallgen.py (vectors, enums, structs, classes,
    namespaces, templates, fortran_generic, overloads, defaults); compile only (there is no library to link)."""
    problems = []
    m = dict(model, options=dict(model["options"], **options))
    r = shroud_run.run_yaml(smallgen.to_yaml(m), ["--ffiles", "ffiles.txt"], workdir=work, name="sg")
    if r.status != "ok":
        return [("shroud-stops:%s" % (r.exc_type or ""), "Shroud stops on an admitted-grammar library: " + r.describe())]
    outd = os.path.join(work, "out")
    gen = sorted(os.listdir(outd))
    hname = model["library"].lower() + (".hpp" if model["language"] == "c++" else ".h")
    with open(os.path.join(outd, hname), "w") as fp:
        fp.write(smallgen.header(model))
    incs = ["-I", ".", "-I", sysconfig.get_paths()["include"], "-I", luafront.EMU]
    npinc = os.path.join(core.VERIF, ".deps", "numpy", "_core", "include")
    if os.path.isdir(npinc):
        incs += ["-I", npinc]
    objs = []
    for h in gen:
        if re.match(r"^(wrap|types).*\.h$", h):
            for cmd, what in ((["gcc", "-std=c99", "-x", "c"], "C"), (["g++", "-std=c++11", "-x", "c++"], "C++")):
                rc, err = run_cmd(cmd + ["-fsyntax-only", "-w"] + incs + [h], outd)
                if rc != 0:
                    problems.append(("header-alone:%s" % what, "%s does not compile on its own as %s: %s" % (h, what, first_error(err))))
    for src in gen:
        if src.endswith(".cpp") or src.endswith(".c"):
            if not os.path.isdir(npinc) and "numpy/" in open(os.path.join(outd, src), errors="replace").read():
                continue      # numpy headers not installed: numpy-using sources are skipped
            cmd = ["g++", "-std=c++11"] if src.endswith(".cpp") else ["gcc", "-std=c99"]
            # the C/Fortran group is compiled to objects (for the symbol closure below), the rest is syntax-checked
            obj = src.startswith(("wrap", "util"))
            rc, err = run_cmd(cmd + (["-c", "-o", src + ".o"] if obj else ["-fsyntax-only"]) + ["-w"] + incs + [src], outd)
            if rc != 0:
                problems.append(("compile:%s" % kind_of_file(src), "%s does not compile: %s" % (src, first_error(err))))
            elif obj:
                objs.append(src + ".o")
    fl = os.path.join(work, "ffiles.txt")
    for src in (open(fl).read().split() if os.path.exists(fl) else []):
        rc, err = run_cmd(["gfortran", "-cpp", "-ffree-form", "-c", os.path.basename(src), "-o", os.path.basename(src) + ".o"], outd)
        if rc != 0:
            problems.append(("compile:fortran", "%s does not compile: %s" % (os.path.basename(src), first_error(err))))
        else:
            objs.append(os.path.basename(src) + ".o")
    # link closure of Shroud's own helpers: a helper function (<prefix>Shroud... / <prefix>SHROUD_...) that a
    # generated object calls must be defined by a generated object (the user's library only defines its own API)
    if objs and not problems:
        defined, undefined = set(), {}
        for o in objs:
            rc, out = run_cmd(["nm", "-g", o], outd, want_stdout=True)
            for ln in out.split("\n"):
                parts = ln.split()
                if len(parts) >= 2 and parts[-2] in ("T", "D", "B", "R", "W", "V"):
                    defined.add(parts[-1])
                elif len(parts) == 2 and parts[0] == "U":
                    undefined.setdefault(parts[1], o)
        for sym, o in sorted(undefined.items()):
            if re.match(r"^[A-Za-z0-9]{1,6}_(Shroud|SHROUD_)", sym) and sym not in defined:
                problems.append(("link:helper-undefined", "%s calls %s, which no generated file defines" % (o[:-2], sym)))
    return problems


def _sg_job(job):
    idx, model, options = job
    work = tempfile.mkdtemp(prefix="vf05s_", dir=core.scratch_root())
    try:
        probs = build_smallgen(work, model, options)
    finally:
        shutil.rmtree(work, ignore_errors=True)
    kinds = sorted(set(d["kind"] for d in model["decls"]))
    return dict(idx=idx, family="sg", options=options, problems=probs, rows=kinds, lib=model)


def _gen_job(job):
    idx, lib, family, options = job
    work = tempfile.mkdtemp(prefix="vf05_", dir=core.scratch_root())
    try:
        # luaemu.o is written next to the sources: compile target name must be local
        probs = build_family(work, lib, family, options)
    finally:
        shutil.rmtree(work, ignore_errors=True)
    rows = sorted(set(p["row"] for f in lib["funcs"] for p in f["params"]))
    return dict(idx=idx, family=family, options=options, problems=probs, rows=rows, lib=lib)


def _corpus_job(job):
    name, kind, opts = job

    def edit(doc):
        return meta.with_options(doc, opts) if opts else doc
    res = upstream.build_and_run(name, kind, yaml_edit=edit)
    return dict(name=name, kind=kind, opts=opts, stage=res["stage"], detail=res["detail"])


def _pylua_job(name):
    """Compile (not link) the Python and Lua sources of a corpus entry against its real headers."""
    out = dict(name=name, problems=[], n=0)
    gen = tempfile.mkdtemp(prefix="vf05c_", dir=core.scratch_root())
    try:
        r = upstream.generate(name, gen)
        if r.status != "ok":
            out["problems"].append(("corpus-shroud-stops:" + name, r.describe()))
            return out
        e = corpus.by_name(name)
        base = e.yaml[:-5]
        incs = ["-I", gen, "-I", sysconfig.get_paths()["include"], "-I", luafront.EMU]
        for cand in (name, base, base.split("-")[0], name.split("-")[0], "struct" if "struct" in name else name):
            d = os.path.join(upstream.RUN, cand)
            if os.path.isdir(d):
                incs += ["-I", d]
        npinc = os.path.join(core.VERIF, ".deps", "numpy", "_core", "include")
        if os.path.isdir(npinc):
            incs += ["-I", npinc]
        lua_ok = name in ("tutorial", "classes")
        for src in sorted(os.listdir(gen)):
            if not (src.startswith(("py", "lua")) and src.endswith((".c", ".cpp"))):
                continue
            if src.startswith("lua") and not lua_ok:
                continue
            text = open(os.path.join(gen, src), errors="replace").read()
            if "numpy" in text and not os.path.isdir(npinc):
                continue
            cmd = ["g++", "-std=c++11"] if src.endswith(".cpp") else ["gcc", "-std=c99"]
            rc, err = run_cmd(cmd + ["-fsyntax-only", "-w"] + incs + [src], gen)
            out["n"] += 1
            if rc != 0:
                out["problems"].append(("corpus-compile:%s:%s" % (kind_of_file(src), name), "%s of corpus entry %s does not compile: %s" % (src, name, first_error(err))))
    finally:
        shutil.rmtree(gen, ignore_errors=True)
    return out


def run(ctx):
    quick = ctx.tier == "quick"
    ctx.rule = ("(1) Hypothesis library models in three families (C/Fortran rows; Python-admitted rows; Lua subset) x drawn "
                "configuration over {F_CFI, debug, doxygen, show_splicer_comments, literalinclude2, C_line_length, F_line_length}; "
                "(2) corpus entries x drawn option variants through the upstream Makefiles + compile of their Python/Lua "
                "sources; evaluations = builds; non-trivial = a build with >= 1 non-default option; distinct by (rows, config)")
    ctx.assumptions = ["gcc/g++/gfortran 12, CPython 3.12 headers, numpy 2.5 headers (if .deps is installed), Lua emulator headers",
                       "a corpus entry is in the domain only if it builds in its upstream default configuration",
                       "shapes of recorded findings of C03/C08/C10/C18 are excluded by the generators of those checks' rows"]
    n = 12 if quick else 150
    jobs = []
    for family, kw in (("cf", dict()), ("cf", dict(with_class=True, nfunc=(0, 2))), ("py", dict(rows=pyfront.PY_ROWS, results=pyfront.PY_RESULTS, types=pyfront.PY_TYPES, ovl_sigs=pyfront.PY_OVL_SIGS)),
                       ("lua", dict(rows=luafront.LUA_ROWS, results=luafront.LUA_RESULTS, types=luafront.LUA_TYPES, ovl_sigs=xlib.OVL_SIGS_LUA))):
        for lang in (("c++", "c") if family != "lua" else ("c++",)):
            libs = smallgen.sample(xlib.library(lang=lang, for_fortran=True, **kw), ctx.seed + len(jobs), n)
            cfgs = smallgen.sample(config(), ctx.seed * 13 + len(jobs), n)
            for lib, cfg in zip(libs, cfgs):
                if family == "lua":
                    luafront.restrict(lib)
                if family == "py":
                    from . import c03
                    c03.sanitize(lib)
                if cfg.get("F_CFI") and xlib.lib_has_vector(lib):
                    cfg = dict(cfg, F_CFI=False)        # recorded known finding: std::vector arguments with F_CFI
                    ctx.exclude_known("probe:vector-with-cfi", 1)
                jobs.append((len(jobs), lib, family, cfg))
    for out in core.pool_map(_gen_job, jobs):
        nt = (out["family"], tuple(out["rows"]), repr(sorted(out["options"].items()))) if out["options"] else None
        ctx.case(label=["family:" + out["family"]] + ["opt:" + k for k in out["options"]], nontrivial=nt,
                 sample=dict(family=out["family"], options=out["options"], rows=out["rows"]) if out["options"] else None)
        for key, note in out["problems"]:
            ctx.failure(key, dict(lib=out["lib"], family=out["family"], options=out["options"]),
                        expected="compiles and links", observed=note, note="%s %s: %s" % (out["family"], out["options"], note))
    sgn = 24 if quick else 400
    models = smallgen.sample_models(ctx.seed, sgn)
    cfgs = smallgen.sample(config(), ctx.seed * 17, sgn)
    for m, c in zip(models, cfgs):
        if c.get("F_CFI") and "std::vector" in smallgen.to_yaml(m):
            c["F_CFI"] = False        # recorded known finding: std::vector arguments with F_CFI
            ctx.exclude_known("probe:vector-with-cfi")
    for out in core.pool_map(_sg_job, [(i, m, c) for i, (m, c) in enumerate(zip(models, cfgs))]):
        nt = ("sg", out["lib"]["library"], repr(sorted(out["options"].items())), smallgen.to_yaml(out["lib"])) if out["options"] else None
        ctx.case(label=["family:sg"] + ["sg:" + k for k in out["rows"]], nontrivial=nt)
        for key, note in out["problems"]:
            ctx.failure("sg:" + key, dict(sg_model=out["lib"], options=out["options"]), expected="compiles", observed=note,
                        note="admitted-grammar library %s: %s" % (out["options"], note))
    # long signatures: statements that do not fit into one line at any admitted length (each language folds its
    # own sources at its own length option, whatever the other one is set to)
    words = ["temperature", "pressure", "density", "velocity", "viscosity", "conductivity", "permeability", "saturation",
             "porosity", "compressibility", "diffusivity", "concentration"]
    ljobs = []
    for li, lang in enumerate(("c", "c++")):
        for npar in (8, 12):
            ps = [smallgen.P("%s_of_cell%d" % (w, k), "double %s_of_cell%d" % (w, k), "", "N1", "double") for k, w in enumerate(words[:npar])]
            if lang == "c++":
                ps.append(smallgen.P("label_of_region", "const std::string &label_of_region", "", "S3in", "string", c=False))
            lm = dict(library="LongSig", language=lang, options={"wrap_python": True, "wrap_lua": lang == "c++"}, format={}, decls=[
                dict(kind="func", name="update_material_state_of_all_cells", rtype="double", rattrs="", rrow="RN", rT="double",
                     const=False, static=False, options={}, format={}, extra={}, py=True, lua=True, params=ps)])
            for cfg in ({}, {"C_line_length": 200}, {"F_line_length": 40}, {"C_line_length": 40, "F_line_length": 130},
                        {"C_line_length": 200, "F_line_length": 40, "debug": True}):
                ljobs.append((len(ljobs), lm, dict(cfg)))
    for out in core.pool_map(_sg_job, ljobs):
        ctx.case(label=["family:long-signature"], nontrivial=("long", out["lib"]["language"], len(out["lib"]["decls"][0]["params"]),
                                                               repr(sorted(out["options"].items()))))
        for key, note in out["problems"]:
            ctx.failure("sg:" + key, dict(sg_model=out["lib"], options=out["options"]), expected="compiles", observed=note,
                        note="long-signature library %s: %s" % (out["options"], note))
    # documented shapes that a few dozen drawn libraries do not always contain (each once per run, with and without
    # an option set): helpers needed only inside a namespace (no library-level user of the same helper);
    # struct.rst's forward-declared class pair with the Python and Lua wrappers on
    shapes = []
    for what, decl in (("string", "const std::string getName()"), ("vector", "std::vector<int> getValues()"),
                       ("alloc", "int *getTable(int *n +intent(out)+hidden) +dimension(n)+deref(allocatable)"),
                       ("charout", "void getLabel(char *s +intent(out)+charlen(20))")):
        fname = decl.split("(")[0].split()[-1].lstrip("*")
        proto = re.sub(r"\s*\+\w+(\((?:[^()]|\([^()]*\))*\))?", "", decl)
        shapes.append(dict(library="NsHelper", language="c++", options={"wrap_python": False, "wrap_lua": False}, format={}, decls=[
            dict(kind="raw", yaml={"decl": "int plain(int a)"}),
            dict(kind="raw", yaml={"decl": "namespace inner", "declarations": [{"decl": decl}, {"decl": "double scale(double x)"}]})],
            raw_header="int plain(int a);\nnamespace inner { %s; double scale(double x); }\n" % proto, shape="ns-helper:" + what))
    for how1, how2 in (("const Node1 &arg", "const Edge1 &arg"), ("Node1 *arg +intent(in)", "Edge1 *arg +intent(in)")):
        h1, h2 = how1.split(" +")[0], how2.split(" +")[0]
        shapes.append(dict(library="PairOk", language="c++", options={"wrap_python": True, "wrap_lua": False}, format={}, decls=[
            dict(kind="raw", yaml={"decl": "class Node1"}),
            dict(kind="raw", yaml={"decl": "class Edge1", "declarations": [{"decl": "Edge1()"}, {"decl": "void acceptNode(%s)" % how1}, {"decl": "int degree()"}]}),
            dict(kind="raw", yaml={"decl": "class Node1", "declarations": [{"decl": "Node1()"}, {"decl": "void acceptEdge(%s)" % how2}, {"decl": "int rank()"}]})],
            raw_header="class Node1;\nclass Edge1 { public: Edge1(); void acceptNode(%s); int degree(); };\n"
                       "class Node1 { public: Node1(); void acceptEdge(%s); int rank(); };\n" % (h1, h2), shape="class-pair:" + how1.split()[-2]))
    sjobs = []
    for m_ in shapes:
        # (std::vector together with F_CFI is the recorded finding probed below)
        for cfg in ({}, {"debug": True, "F_CFI": True} if m_["library"] == "NsHelper" and "vector" not in m_["shape"] else {"debug": True}):
            sjobs.append((len(sjobs), m_, dict(cfg)))
    for out in core.pool_map(_sg_job, sjobs):
        ctx.case(label=["family:documented-shape"], nontrivial=("shape", out["lib"]["shape"], repr(sorted(out["options"].items()))))
        for key, note in out["problems"]:
            ctx.failure("sg:" + key, dict(sg_model=out["lib"], options=out["options"]), expected="compiles and links", observed=note,
                        note="documented shape %s %s: %s" % (out["lib"]["shape"], out["options"], note))
    # probe of the recorded finding
    vm = dict(library="VecLib", language="c++", options={"wrap_python": False, "wrap_lua": False}, format={}, decls=[
        dict(kind="func", name="vsum", rtype="int", rattrs="", rrow="RN", rT="int", const=False, static=False, options={}, format={}, extra={},
             py=False, lua=False, params=[smallgen.P("a0", "const std::vector<double> &a0", "", "V1in", "double", c=False),
                                          # (a string argument makes Shroud write the _CFI variant, in which the
                                          #  vector argument is not converted)
                                          smallgen.P("a1", "const std::string &a1", "", "S3in", "string", c=False)])])
    out = _sg_job((0, vm, {"F_CFI": True}))
    ctx.case(label="probe")
    if out["problems"]:
        ctx.failure("probe:vector-with-cfi", dict(sg_model=vm, options={"F_CFI": True}, probe=True), observed=out["problems"][0][1],
                    note="std::vector argument with F_CFI: " + out["problems"][0][1])
    # second probe: struct.rst's own forward-declaration example (methods taking the other class by non-const
    # reference) with the Python wrapper on
    pm = dict(library="PairLib", language="c++", options={"wrap_python": True, "wrap_lua": False}, format={}, decls=[
        dict(kind="raw", yaml={"decl": "class Class1"}),
        dict(kind="raw", yaml={"decl": "class Class2", "declarations": [{"decl": "Class2()"}, {"decl": "void accept1(Class1 & arg1)"}]}),
        dict(kind="raw", yaml={"decl": "class Class1", "declarations": [{"decl": "Class1()"}, {"decl": "void accept2(Class2 & arg2)"}]})],
        raw_header="class Class1;\nclass Class2 { public: Class2(); void accept1(Class1 & arg1); };\n"
                   "class Class1 { public: Class1(); void accept2(Class2 & arg2); };\n")
    out = _sg_job((0, pm, {}))
    ctx.case(label="probe")
    if out["problems"]:
        ctx.failure("probe:python-class-reference-inout", dict(sg_model=pm, options={}, probe="python-class-reference-inout"),
                    observed=out["problems"][0][1], note="class argument by non-const reference with the Python wrapper: " + out["problems"][0][1])
    # third probe: a derived class whose method hides a base-class method of another signature (legal C++, accepted
    # by Shroud): the Fortran type extension overrides the binding with a different interface
    hm = dict(library="HideLib", language="c++", options={"wrap_python": False, "wrap_lua": False}, format={}, decls=[
        dict(kind="raw", yaml={"decl": "class Shape1", "declarations": [{"decl": "Shape1()"}, {"decl": "int extent()"}]}),
        dict(kind="raw", yaml={"decl": "class Circle1 : public Shape1", "declarations": [{"decl": "Circle1()"}, {"decl": "double extent(int axis)"}]})],
        raw_header="class Shape1 { public: Shape1(); int extent(); };\n"
                   "class Circle1 : public Shape1 { public: Circle1(); double extent(int axis); };\n")
    out = _sg_job((0, hm, {}))
    ctx.case(label="probe")
    if out["problems"]:
        ctx.failure("probe:derived-method-hides-base", dict(sg_model=hm, options={}, probe="derived-method-hides-base"),
                    observed=out["problems"][0][1], note="derived class method hiding a base method: " + out["problems"][0][1])
    # (2) corpus
    targets = upstream.target_lists()
    base_jobs = [(nme, "fortran", None) for nme in targets["fortran"]] + [(nme, "c", None) for nme in targets["c"]]
    base = {(r["name"], r["kind"]): r for r in core.pool_map(_corpus_job, base_jobs)}
    in_domain = [k for k, r in base.items() if r["stage"] in ("ok", "run")]
    ctx.extra["corpus_entries_in_domain"] = len(in_domain)
    import random  # deterministic choice of variants from VERIF_SEED
    rnd = random.Random(ctx.seed)
    vjobs = []
    for vi, (nme, kind) in enumerate(sorted(in_domain)):
        if vi % 2 == 0 or not quick:
            # only the C length set, and set large (input.rst: when the C sources go through a formatter);
            # the Fortran sources keep their default length
            vjobs.append((nme, kind, {"C_line_length": 200}))
            if quick:
                continue
        for _ in range(1 if quick else 4):
            opts = {}
            for k in ("debug", "doxygen", "show_splicer_comments"):
                if rnd.random() < 0.5:
                    opts[k] = rnd.random() < 0.5
            opts["C_line_length"] = rnd.choice(LENGTHS)
            opts["F_line_length"] = rnd.choice(F_LENGTHS)
            vjobs.append((nme, kind, opts))
    for r in core.pool_map(_corpus_job, vjobs):
        ctx.case(label="corpus-variant", nontrivial=("corpus", r["name"], r["kind"], repr(sorted(r["opts"].items()))))
        if r["stage"] not in ("ok", "run"):
            ctx.failure("corpus-variant:%s:%s" % (r["stage"], r["name"]), dict(upstream=r["name"], kind=r["kind"], options=r["opts"]),
                        expected="builds like the default configuration", observed=r["detail"],
                        note="regression/run/%s (%s) with %s: %s: %s" % (r["name"], r["kind"], r["opts"], r["stage"], r["detail"][:700]))
    # the entries whose Python / Lua modules upstream itself compiles (lists in its Makefile)
    names = sorted(set(targets["python"]) | set(["tutorial", "classes"]))
    for out in core.pool_map(_pylua_job, names):
        ctx.case(n=max(1, out["n"]), label="corpus-pylua")
        for key, note in out["problems"]:
            ctx.failure(key, dict(corpus_pylua=out["name"]), expected="compiles", observed=note, note=note)


def replay(ctx, rec):
    c = rec["case"]
    if "upstream" in c:
        r = _corpus_job((c["upstream"], c["kind"], c["options"]))
        if r["stage"] not in ("ok", "run"):
            ctx.failure(rec["key"], c, observed=r["detail"], note=r["detail"][:700])
    elif "sg_model" in c:
        out = _sg_job((0, c["sg_model"], c["options"]))
        for key, note in out["problems"]:
            pk = c.get("probe")
            ctx.failure(("probe:" + (pk if isinstance(pk, str) else "vector-with-cfi")) if pk else "sg:" + key, c, observed=note, note=note)
    elif "corpus_pylua" in c:
        for key, note in _pylua_job(c["corpus_pylua"])["problems"]:
            ctx.failure(key, c, observed=note, note=note)
    else:
        out = _gen_job((0, c["lib"], c["family"], c["options"]))
        for key, note in out["problems"]:
            ctx.failure(key, c, observed=note, note=note)
