"""C07 - output is a pure, repeatable function of inputs and command line.

a  two real command-line runs that differ in PYTHONHASHSEED, current directory
   (absolute paths given), and environment (HOME, LANG, TZ, USER, HOSTNAME,
   COLUMNS, TMPDIR) must write byte-identical directories
b  an output directory pre-populated with same-named junk and extra files:
   same written set, stale content fully replaced, extras untouched
c  histories: a Hypothesis-drawn sequence of 2-6 (library, configuration)
   invocations executed in ONE Python process through main_with_args /
   create_wrapper; after every step the directory equals the fresh-process
   reference of that (library, configuration)
d  in-process pair with time / host / user / pid sources patched to differ
"""
import os
import shutil
import tempfile

from hypothesis import strategies as st

from .. import core, corpus, meta, shroud_run, smallgen

LEVEL = "exploration"


def _subject_argv(e):
    return e.argv()


# ---------------------------------------------------------------------------
# a + b : command line

ENV_A = {"PYTHONHASHSEED": "0", "HOME": "/root", "LANG": "C", "TZ": "UTC", "USER": "alice", "HOSTNAME": "hosta",
         "COLUMNS": "80", "LC_ALL": "C"}
ENV_B = {"PYTHONHASHSEED": "4242", "HOME": "/nonexistent", "LANG": "en_US.UTF-8", "TZ": "Pacific/Kiritimati",
         "USER": "bob", "HOSTNAME": "hostb", "COLUMNS": "200", "LC_ALL": "en_US.UTF-8"}


def _cli_job(job):
    name, text, argv, seeds, prepop = job
    out = dict(name=name, runs=0, fails=[], nontrivial=[], sample=None)
    work = tempfile.mkdtemp(prefix="vf07_", dir=core.scratch_root())
    case = dict(part="ab", lib=name, yaml=text, argv=argv, seeds=seeds, prepop=prepop)
    try:
        # identical absolute paths for input and output; only cwd / env / hash seed differ
        ind = os.path.join(work, "in")
        outd = os.path.join(work, "out")
        os.makedirs(ind)
        ypath = os.path.join(ind, name + ".yaml")
        open(ypath, "w").write(text)
        results = []
        variants = []
        for i, hs in enumerate(seeds):
            env = dict(ENV_A if i % 2 == 0 else ENV_B)
            env["PYTHONHASHSEED"] = str(hs)
            # (current directories at different depths, so that a path made relative to the cwd differs too)
            cwd = os.path.join(work, "cwd%d" % i, *(["deeper", "x"][:i % 3]))
            os.makedirs(cwd)
            variants.append((env, cwd, None))
        if prepop:
            variants.append((dict(ENV_A), os.path.join(work, "cwd0"), "prepopulate"))
            # leftovers of an earlier run of the same library: empty, cut short, with a tail, with one line changed
            variants.append((dict(ENV_A), os.path.join(work, "cwd0"), "prepopulate-related"))
        for env, cwd, pre in variants:
            shutil.rmtree(outd, ignore_errors=True)
            os.makedirs(outd)
            junk = {}
            if pre and results:
                for k, f in enumerate(sorted(results[0])):
                    junk[f] = b"STALE CONTENT\n" * 200 + f.encode()
                    if pre == "prepopulate-related":
                        real = results[0][f]
                        lines = real.split(b"\n")
                        junk[f] = [b"", b"\n".join(lines[:len(lines) // 2]) + b"\n", real + b"! leftover line\n// leftover line\n",
                                   b"\n".join(lines[:len(lines) // 2] + [b"changed"] + lines[len(lines) // 2 + 1:])][k % 4]
                junk["zz_unrelated.txt"] = b"keep me\n"
                junk["wrapzz_extra.c"] = b"/* extra */\n"
                for f, b in junk.items():
                    with open(os.path.join(outd, f), "wb") as fp:
                        fp.write(b)
            av = list(argv) + ["--outdir", outd, "--logdir", outd, ypath]
            r = shroud_run.run_argv(av, cwd=cwd, mode="cli", env=env)
            out["runs"] += 1
            if r.status != "ok":
                out["fails"].append(("ab:run-fails", case, "command line run fails: " + r.describe()))
                return out
            files = shroud_run.read_tree(outd)
            if pre:
                extras = {f: b for f, b in files.items() if f in ("zz_unrelated.txt", "wrapzz_extra.c")}
                if extras != {f: junk[f] for f in extras} or len(extras) != 2:
                    out["fails"].append(("b:extra-files-touched", case, "unrelated files in the output directory were changed or removed"))
                files = {f: b for f, b in files.items() if f not in ("zz_unrelated.txt", "wrapzz_extra.c")}
                d = meta.byte_diff(results[0], files, skip_kinds=())
                if d:
                    out["fails"].append(("b:prepopulated-differs", case,
                                         "pre-populated output directory gives different result: %s %s" % d[0]))
                out["nontrivial"].append(("b", name))
            else:
                results.append(files)
        for i in range(1, len(results)):
            d = meta.byte_diff(results[0], results[i], skip_kinds=())
            if d:
                out["fails"].append(("a:differs:" + d[0][0].split(".")[-1], case,
                                     "runs with PYTHONHASHSEED=%s and %s (different cwd/environment) differ: %s %s"
                                     % (seeds[0], seeds[i], d[0][0], d[0][1])))
            out["nontrivial"].append(("a", name, seeds[0], seeds[i]))
        out["sample"] = dict(part="a", lib=name, hash_seeds=seeds, files=len(results[0]) if results else 0)
    finally:
        shutil.rmtree(work, ignore_errors=True)
    return out


# ---------------------------------------------------------------------------
# c : histories in one process

def _history_child(steps, work, patch_clock):
    """Runs inside ONE forked child: executes every step in this process."""
    import argparse
    import sys
    import shroud.main
    res = []
    for k, st_ in enumerate(steps):
        d = os.path.join(work, "h", "step%d" % k)
        os.makedirs(os.path.join(d, "out"))
        os.chdir(d)
        if patch_clock:
            _patch_sources(k)
        try:
            if st_["entry"] == "create_wrapper":
                shroud.main.create_wrapper(st_["yaml_path"], outdir="out", path=st_["search"])
                # create_wrapper has no logdir argument: the log is written to cwd
                for f in os.listdir("."):
                    if f.endswith((".log", ".json")):
                        os.replace(f, os.path.join("out", f))
            else:
                sys.argv = ["shroud"] + st_["argv"] + ["--outdir", "out", "--logdir", "out", st_["yaml_path"]]
                try:
                    shroud.main.main()
                except SystemExit as e:
                    if e.code not in (0, None):
                        raise RuntimeError("exit %r" % (e.code,))
            res.append("ok")
        except BaseException as e:  # recorded and compared with the reference
            res.append("error: %s: %s" % (type(e).__name__, str(e)[:300]))
    return res


def _patch_sources(k):
    import time
    import datetime
    import socket
    import getpass
    base = 1000000000 + 86400 * 400 * k

    def fake_time():
        return float(base)
    time.time = fake_time
    time.localtime = lambda *a: time.gmtime(base)
    time.ctime = lambda *a: "FAKE TIME %d" % k
    time.strftime_orig = getattr(time, "strftime_orig", time.strftime)
    socket.gethostname = lambda: "host%d" % k
    getpass.getuser = lambda: "user%d" % k
    os.getpid_orig = getattr(os, "getpid_orig", os.getpid)
    os.getpid = lambda: 1000 + k
    os.getlogin = lambda: "login%d" % k

    class FakeDT(datetime.datetime):
        @classmethod
        def now(cls, tz=None):
            return datetime.datetime.fromtimestamp(base, tz)

        @classmethod
        def today(cls):
            return datetime.datetime.fromtimestamp(base)
    datetime.datetime = FakeDT


def _hist_job(job):
    hid, steps, patch_clock = job
    out = dict(name="hist%d" % hid, runs=0, fails=[], nontrivial=[], sample=None)
    work = tempfile.mkdtemp(prefix="vf07h_", dir=core.scratch_root())
    try:
        # write inputs
        for k, st_ in enumerate(steps):
            ind = os.path.join(work, "in%d" % k)
            os.makedirs(ind)
            p = os.path.join(ind, st_["name"] + ".yaml")
            open(p, "w").write(st_["yaml"])
            st_["yaml_path"] = p
        # fresh-process references (same relative outdir 'out')
        refs = []
        for k, st_ in enumerate(steps):
            d = os.path.join(work, "r", "step%d" % k)
            os.makedirs(os.path.join(d, "out"))
            if st_["entry"] == "create_wrapper":
                res = shroud_run.in_child(_history_child, ([dict(st_)], os.path.join(work, "r%d" % k), False))
                out["runs"] += 1
                rd = os.path.join(work, "r%d" % k, "h", "step0", "out")
                refs.append((res.get("extra") or ["error: " + str(res.get("exc_msg"))])[0:1] + [shroud_run.read_tree(rd) if os.path.isdir(rd) else {}])
            else:
                r = shroud_run.run_argv(st_["argv"] + ["--outdir", "out", "--logdir", "out", st_["yaml_path"]], cwd=d)
                out["runs"] += 1
                refs.append(["ok" if r.status == "ok" else "error: %s: %s" % (r.exc_type, (r.exc_msg or "")[:300]),
                             shroud_run.read_tree(os.path.join(d, "out"))])
        res = shroud_run.in_child(_history_child, (steps, work, patch_clock), timeout=300)
        out["runs"] += len(steps)
        case = dict(part="c", steps=[{k: v for k, v in s.items() if k != "yaml_path"} for s in steps], patch_clock=patch_clock)
        if res["status"] != "ok":
            out["fails"].append(("c:history-process-died", case, "history process: %s %s" % (res.get("exc_type"), res.get("exc_msg"))))
            return out
        statuses = res["extra"]
        for k, st_ in enumerate(steps):
            hd = os.path.join(work, "h", "step%d" % k, "out")
            files = shroud_run.read_tree(hd) if os.path.isdir(hd) else {}
            rstat, rfiles = refs[k]
            prev = [s["name"] + ":" + s["lang"] for s in steps[:k]]
            if rstat.startswith("error") and statuses[k].startswith("error"):
                continue
            if statuses[k] != rstat:
                out["fails"].append(("c:status-differs:%s-after-%s" % (st_["lang"], "+".join(sorted(set(s["lang"] for s in steps[:k]))) or "nothing"),
                                     case, "step %d (%s) in-process: %s ; fresh process: %s ; earlier in this process: %s"
                                     % (k, st_["name"], statuses[k], rstat, prev)))
                continue
            d = meta.byte_diff(rfiles, files, skip_kinds=())
            if d:
                out["fails"].append(("c:output-depends-on-history:%s-after-%s" % (
                    st_["lang"], "+".join(sorted(set(s["lang"] for s in steps[:k]))) or "nothing"), case,
                    "step %d (%s, %s) differs from its fresh-process output after %s: %s %s"
                    % (k, st_["name"], st_["lang"], prev, d[0][0], d[0][1])))
        langs = [s["lang"] for s in steps]
        if len(set(langs)) > 1 or any(s.get("has_class") for s in steps[:-1]):
            out["nontrivial"].append(("c", tuple(s["name"] + "/" + s["lang"] + "/" + s["entry"] for s in steps), patch_clock))
        out["sample"] = dict(part="c", history=[(s["name"], s["lang"], s["entry"], s["argv"]) for s in steps],
                             clock_patched=patch_clock)
    finally:
        shutil.rmtree(work, ignore_errors=True)
    return out


@st.composite
def typedef_library(draw):
    """include.yaml / example.yaml: typedefs that name the headers which define them (c_header,
    cxx_header - the same file or one per language), used together in one wrapper header."""
    import yaml
    n = draw(st.integers(2, 5))
    decls = []
    tnames = []
    for i in range(n):
        base = draw(st.sampled_from(["int", "long", "double", "size_t", "int"]))
        tn = draw(st.sampled_from(["IndexType", "OffsetType", "StatusType", "WeightType", "KeyType", "RankType"])) + str(i)
        stem = draw(st.sampled_from(["index", "offset", "status", "weight", "zeta", "alpha"])) + "_%d" % i
        fields = {"c_header": stem + ".h"}
        fields["cxx_header"] = stem + (".h" if draw(st.integers(0, 3)) else ".hpp")
        decls.append({"decl": "typedef %s %s" % (base, tn), "fields": fields})
        tnames.append(tn)
    for j in range(draw(st.integers(1, 4))):
        used = draw(st.lists(st.sampled_from(tnames), min_size=1, max_size=n, unique=True))
        params = ["%s a%d" % (t, k) for k, t in enumerate(used)]
        if draw(st.integers(0, 3)) == 0:
            params.append("MPI_Comm comm")
        decls.append({"decl": "%s lookup%d(%s)" % (draw(st.sampled_from(["void"] + tnames)), j, ", ".join(params))})
    doc = {"library": "hdrs", "cxx_header": "hdrs.hpp", "language": draw(st.sampled_from(["c++", "c++", "c"])),
           "options": {"wrap_python": draw(st.booleans())}, "declarations": decls}
    return doc["language"], yaml.safe_dump(doc, sort_keys=False, width=1000)


def subjects(ctx, n_corpus, n_gen):
    import random  # deterministic corpus selection from VERIF_SEED
    rnd = random.Random(ctx.seed)
    subs = []
    ents = corpus.entries()
    if n_corpus < len(ents):
        ents = rnd.sample(ents, n_corpus)
    for e in ents:
        doc = meta.load(e.text())
        lang = e.language_arg() or doc.get("language", "c++")
        has_class = any(meta.decl_kind(n) == "class" for _p, n, _l in meta.walk_decls(doc))
        subs.append(dict(name=e.yaml[:-5], yaml=e.text(), argv=e.argv(), lang=lang, has_class=has_class,
                         search=[corpus.INPUT], plain=not e.cmdline))
    # (generated C libraries too: histories have to mix the two languages)
    for m in smallgen.sample_models(ctx.seed, n_gen) + smallgen.sample_models(ctx.seed + 3, max(3, n_gen // 2), lang="c"):
        has_class = any(d["kind"] == "class" for d in m["decls"])
        subs.append(dict(name=m["library"], yaml=smallgen.to_yaml(m), argv=[], lang=m["language"],
                         has_class=has_class, search=[], plain=True))
    for lang, text in smallgen.sample(typedef_library(), ctx.seed + 5, max(4, n_gen // 2)):
        subs.append(dict(name="hdrs", yaml=text, argv=[], lang=lang, has_class=False, search=[], plain=True, many_seeds=True))
    return subs


def run(ctx):
    quick = ctx.tier == "quick"
    ctx.rule = ("a/b: library x pair (or 4-tuple) of PYTHONHASHSEED values drawn by Hypothesis, each run from another cwd "
                "with another environment, plus one run into a pre-populated directory; c/d: Hypothesis-drawn histories "
                "of 2-6 (library, configuration, entry point) steps executed in one process (d: clock/host/user/pid "
                "sources patched to differ per step), every step compared with its fresh-process reference; "
                "non-trivial = a history mixing C and C++ libraries or with a class-bearing library before the last "
                "step, any a/b comparison; distinct by (library, seeds) / ordered step list")
    ctx.assumptions = ["the complete output directory is compared byte for byte, including .json and .log",
                       "in-process steps and their references use the same relative --outdir so that path-bearing files "
                       "(setup.py) are comparable",
                       "wall-clock independence is checked by patching Python's time/host/user/pid sources, not by waiting"]
    subs = subjects(ctx, 14 if quick else 50, 10 if quick else 60)
    seed_sets = smallgen.sample(st.lists(st.integers(0, 4294967295), min_size=2 if quick else 4,
                                         max_size=2 if quick else 4, unique=True), ctx.seed, len(subs))
    jobs = []
    for i, s in enumerate(subs):
        hseeds = [0] + seed_sets[i % len(seed_sets)][:1 if quick else 3]
        if s.get("many_seeds"):
            hseeds += [1, 2, 3, 42]         # order of a handful of header names: several hash seeds
        jobs.append((s["name"], s["yaml"], s["argv"], hseeds, True))
    for out in core.pool_map(_cli_job, jobs):
        _collect(ctx, out, "ab")
    # histories
    nh = 120 if quick else 1500

    @st.composite
    def history(draw):
        n = draw(st.integers(2, 4 if quick else 6))
        steps = []
        for _ in range(n):
            s = dict(draw(st.sampled_from(subs)))
            s.pop("many_seeds", None)
            s["entry"] = "create_wrapper" if (s.pop("plain") and draw(st.integers(0, 3)) == 0) else "main"
            steps.append(s)
        return steps, draw(st.integers(0, 3)) == 0
    hs = smallgen.sample(history(), ctx.seed + 11, nh)
    # systematic part: every ordered pair of a C and a C++ corpus library out of a fixed set whose statement
    # tables have language-specific clauses (structs, strings, pointers, cdesc), the same library in both languages
    byname = {e.name: e for e in corpus.entries()}
    cset = [n for n in ("struct-c", "pointers-c", "clibrary", "generic") if n in byname]
    xset = [n for n in ("struct-cxx", "pointers-cxx", "strings", "cdesc", "forward") if n in byname]
    if not quick:
        cset += [n for n in ("struct-class-c", "enum-c", "interface", "structlist") if n in byname]
        xset += [n for n in ("struct-class-cxx", "enum-cxx", "vectors", "ownership", "classes") if n in byname]

    def sub_of(n):
        e = byname[n]
        doc = meta.load(e.text())
        return dict(name=e.yaml[:-5], yaml=e.text(), argv=e.argv(), lang=e.language_arg() or doc.get("language", "c++"),
                    has_class=any(meta.decl_kind(nd) == "class" for _p, nd, _l in meta.walk_decls(doc)),
                    search=[corpus.INPUT], entry="main")
    for a in cset:
        for b in xset:
            hs.append(([sub_of(a), sub_of(b)], False))
            hs.append(([sub_of(b), sub_of(a)], False))
    # ... and every ordered pair of libraries that share generated helper code carrying the library prefix
    # (array copy helpers: vectors, ownership; generated libraries with std::vector results / out arguments)
    hset = [sub_of(n) for n in ("vectors", "ownership") if n in byname]
    hset += [dict(s, entry="main") for s in subs if s.get("plain") and s["search"] == [] and "std::vector" in s["yaml"]][:3 if quick else 8]
    for a in hset:
        for b in hset:
            if a is not b and a["name"] != b["name"]:
                a2, b2 = dict(a), dict(b)
                a2.pop("plain", None), b2.pop("plain", None), a2.pop("many_seeds", None), b2.pop("many_seeds", None)
                hs.append(([a2, b2], False))
    hjobs = [(i, steps, patch) for i, (steps, patch) in enumerate(hs)]
    for out in core.pool_map(_hist_job, hjobs):
        _collect(ctx, out, "c")


def _collect(ctx, out, part):
    ctx.case(n=out["runs"], label="part:" + part)
    for nt in out["nontrivial"]:
        ctx.case(n=0, nontrivial=nt, label="nontrivial:" + part)
    if out["sample"]:
        ctx.case(n=0, sample=out["sample"])
    for key, case, note in out["fails"]:
        ctx.failure(key, case, expected="byte-identical output", observed=note, note=note)


def replay(ctx, rec):
    c = rec["case"]
    if c["part"] == "ab":
        out = _cli_job((c["lib"], c["yaml"], c["argv"], c["seeds"], c["prepop"]))
    else:
        out = _hist_job((0, c["steps"], c["patch_clock"]))
    for key, case, note in out["fails"]:
        ctx.failure(key, case, observed=note, note=note)
