"""C03 - the generated Python extension is call-equivalent to the wrapped library.

(1) generated libraries (vf/exec/xlib.py, Python-admitted rows, list mode): the
    extension is built against CPython 3.12 and linked with the instrumented
    subject library; a generated Python driver performs EVERY positional/keyword
    split of every call (keyword part reversed on odd splits) and bad calls (too
    few / too many arguments, unknown keyword, each argument wrongly typed);
    the combined stream must equal the reference model: values delivered, result
    followed by every out/inout argument, TypeError/ValueError and no library
    call for bad calls; classes act on the right C++ object.
(2) probes for recorded findings and for default arguments with keywords.
"""
import copy
import os
import shutil
import tempfile

from .. import core, shroud_run, smallgen
from ..exec import xlib, callcheck, pyfront, drivers

LEVEL = "exploration"

BAD_REF_ROWS = ("B1out", "B1inout", "N3in", "N3out", "N3inout", "V1in")


def sanitize(lib):
    """Exclude by construction the shapes of recorded findings; returns count."""
    n = 0
    funcs = list(lib["funcs"])
    for c in lib.get("classes", []):
        funcs += c["methods"] + c["statics"]
    for f in funcs:
        r = f["ret"]
        if r and r["row"] == "S3ref" and any(p["row"] in BAD_REF_ROWS for p in f["params"]):
            f["ret"] = dict(row="S3", T="string", ctype="const std::string", attrs="")
            n += 1
    return n


# ---------------------------------------------------------------------------
# probes: fixed small libraries + python snippets; each returns None or a description

def _probe_build(yaml_text, header, impl, cxx=True):
    """-> (workdir, error)"""
    work = tempfile.mkdtemp(prefix="vf03p_", dir=core.scratch_root())
    r = shroud_run.run_yaml(yaml_text, [], workdir=work, name="plib")
    if r.status != "ok":
        return work, "Shroud stops: " + r.describe()
    outd = os.path.join(work, "out")
    srcs = {"plib.hpp": header, "xlib.cpp": impl, "vf_support.h": xlib.SUPPORT_H, "vf_support.c": xlib.SUPPORT_C}
    lib = dict(language="c++")
    save = xlib.subject_sources
    try:
        xlib.subject_sources = lambda _l: srcs
        pyfront.py_driver_save = pyfront.py_driver
        pyfront.py_driver = lambda _l: "print('built')\n"
        res = pyfront.build_and_run(outd, lib, os.listdir(outd), modname="plib")
    finally:
        xlib.subject_sources = save
        pyfront.py_driver = pyfront.py_driver_save
    if res["stage"] != "ok":
        return work, "%s: %s" % (res["stage"], res["detail"][-700:])
    return work, None


def _py(work, code):
    import subprocess
    import sysconfig
    outd = os.path.join(work, "out")
    env = dict(os.environ, PYTHONPATH=outd, LD_LIBRARY_PATH=sysconfig.get_config_var("LIBDIR"))
    cp = subprocess.run([pyfront.PY, "-c", code], cwd=outd, capture_output=True, text=True, timeout=60, env=env)
    return cp.returncode, cp.stdout, cp.stderr


YAML_HEAD = "library: plib\ncxx_header: plib.hpp\noptions:\n  wrap_python: true\n  wrap_c: false\n  wrap_fortran: false\n  PY_array_arg: list\ndeclarations:\n"
IMPL_HEAD = '#include "plib.hpp"\n#include <stdio.h>\n#include "vf_support.h"\nextern "C" void vf_live_report(void) {}\n'


def probe_defaults():
    """docs/tutorial.rst 'Optional arguments': keyword and positional calls of a defaulted function."""
    y = YAML_HEAD + "- decl: double UseDefaultArguments(double arg1 = 3.5, bool arg2 = true)\n"
    h = "double UseDefaultArguments(double arg1 = 3.5, bool arg2 = true);\n"
    c = IMPL_HEAD + 'double UseDefaultArguments(double arg1, bool arg2) { printf("E %g %d\\n", arg1, arg2 ? 1 : 0); fflush(stdout); return arg1 + (arg2 ? 10 : 0); }\n'
    work, err = _probe_build(y, h, c)
    try:
        if err:
            return err
        code = ("import plib\nf = plib.UseDefaultArguments\n"
                "for args, kw in [((), {}), ((1.0,), {}), ((1.0, False), {}), ((), {'arg1': 1.0}), ((1.0,), {'arg2': False}), ((), {'arg1': 2.0, 'arg2': False}), ((), {'arg2': False})]:\n"
                "    try:\n        print('R', f(*args, **kw))\n    except BaseException as e:\n        print('X', type(e).__name__)\n")
        rc, so, se = _py(work, code)
        want = ["E 3.5 1", "R 13.5", "E 1 1", "R 11.0", "E 1 0", "R 1.0", "E 1 1", "R 11.0", "E 1 0", "R 1.0", "E 2 0", "R 2.0"]
        got = [l for l in so.split("\n") if l]
        # the last call (arg2 only) skips arg1: the library default 3.5 must be used, or a TypeError raised
        if got[:len(want)] != want:
            i = next((j for j, (a, b) in enumerate(zip(got, want)) if a != b), min(len(got), len(want)))
            return "call %d of UseDefaultArguments: expected %r, observed %r (%s)" % (i // 2, want[i:i + 1], got[i:i + 1], se[-200:])
        return None
    finally:
        shutil.rmtree(work, ignore_errors=True)


def probe_default_skipped():
    """A keyword for a later defaulted argument while an earlier defaulted one is omitted."""
    y = YAML_HEAD + "- decl: double UseDefaultArguments(double arg1 = 3.5, bool arg2 = true)\n"
    h = "double UseDefaultArguments(double arg1 = 3.5, bool arg2 = true);\n"
    c = IMPL_HEAD + 'double UseDefaultArguments(double arg1, bool arg2) { printf("E %g %d\\n", arg1, arg2 ? 1 : 0); fflush(stdout); return arg1 + (arg2 ? 10 : 0); }\n'
    work, err = _probe_build(y, h, c)
    try:
        if err:
            return err
        code = ("import plib\ntry:\n    print('R', plib.UseDefaultArguments(arg2=False))\nexcept BaseException as e:\n    print('X', type(e).__name__)\n")
        rc, so, se = _py(work, code)
        tail = [l for l in so.split("\n") if l]
        if tail not in (["E 3.5 0", "R 3.5"], ["X TypeError"], ["X ValueError"]):
            return "UseDefaultArguments(arg2=False): expected the library default for arg1 (or TypeError), observed %r" % tail
        return None
    finally:
        shutil.rmtree(work, ignore_errors=True)


def probe_small_ints():
    y = YAML_HEAD + "- decl: void f(int64_t *a1 +intent(inout), const int16_t *a2)\n"
    h = "#include <stdint.h>\nvoid f(int64_t *a1, const int16_t *a2);\n"
    c = IMPL_HEAD + 'void f(int64_t *a1, const int16_t *a2) { printf("E %lld %d\\n", (long long) *a1, (int) *a2); fflush(stdout); }\n'
    work, err = _probe_build(y, h, c)
    try:
        if err:
            return err
        rc, so, se = _py(work, "import plib\nplib.f(42, 32767)\n")
        if "E 42 32767" not in so:
            return "f(42, 32767) with (int64_t *inout, const int16_t *): library received %r" % so.strip()
        return None
    finally:
        shutil.rmtree(work, ignore_errors=True)


def probe_unsigned():
    y = YAML_HEAD + "- decl: void fu(unsigned int a)\n- decl: void fu64(uint64_t a)\n"
    h = "#include <stdint.h>\nvoid fu(unsigned int a);\nvoid fu64(uint64_t a);\n"
    c = IMPL_HEAD + 'void fu(unsigned int a) { printf("E %u\\n", a); fflush(stdout); }\nvoid fu64(uint64_t a) { printf("E %llu\\n", (unsigned long long) a); fflush(stdout); }\n'
    work, err = _probe_build(y, h, c)
    try:
        if err:
            return err
        rc, so, se = _py(work, "import plib\nfor f, v in ((plib.fu, 4000000000), (plib.fu64, 2**63 + 5)):\n    try:\n        f(v)\n    except BaseException as e:\n        print('X', type(e).__name__)\n")
        if so.split() != ["E", "4000000000", "E", str(2 ** 63 + 5)]:
            return "in-range unsigned values 4000000000 / 2**63+5 are not delivered: %r" % so.strip()
        return None
    finally:
        shutil.rmtree(work, ignore_errors=True)


def probe_ref_result():
    y = YAML_HEAD + "- decl: const std::string &f(bool *a0 +intent(out))\n"
    h = "#include <string>\nconst std::string &f(bool *a0);\n"
    c = IMPL_HEAD + 'const std::string &f(bool *a0) { static std::string s("abc"); *a0 = true; return s; }\n'
    work, err = _probe_build(y, h, c)
    try:
        if err:
            return err
        rc, so, se = _py(work, "import plib\nprint(plib.f())\n")
        if "abc" not in so:
            return "f() returned %r" % so.strip()
        return None
    finally:
        shutil.rmtree(work, ignore_errors=True)


def probe_finalise():
    y = YAML_HEAD + "- decl: class Cls1\n  declarations:\n  - decl: Cls1()\n  - decl: ~Cls1()\n- decl: int live()\n"
    h = "class Cls1 { public: Cls1(); ~Cls1(); };\nint live();\n"
    c = IMPL_HEAD + "static int n = 0;\nCls1::Cls1() { ++n; }\nCls1::~Cls1() { --n; }\nint live() { return n; }\n"
    work, err = _probe_build(y, h, c)
    try:
        if err:
            return err
        rc, so, se = _py(work, "import plib, gc\no = plib.Cls1()\na = plib.live()\ndel o\ngc.collect()\nprint(a, plib.live())\n")
        if so.split() != ["1", "0"]:
            return "live C++ objects before / after 'del obj; gc.collect()': %r (expected 1 0)" % so.strip()
        return None
    finally:
        shutil.rmtree(work, ignore_errors=True)


PROBES = [("defaults-with-keywords", probe_defaults), ("default-skipped-by-keyword", probe_default_skipped), ("small-int-format-unit", probe_small_ints),
          ("unsigned-upper-half", probe_unsigned), ("reference-result-with-cleanup-label", probe_ref_result),
          ("class-never-finalised", probe_finalise)]


def _probe_job(item):
    name, fn = item
    return name, fn()


def _gen_job(job):
    return callcheck._job(job)


def run(ctx):
    quick = ctx.tier == "quick"
    ctx.rule = ("Hypothesis library models restricted to the Python-admitted rows (scalars, bool, char*/std::string in every "
                "intent, list-mode arrays in/out, classes) x every positional/keyword split of every call + bad calls; "
                "evaluations = Python calls executed; non-trivial = a good call using >= 1 keyword or a bad call; distinct by "
                "(function shape, split / bad kind)")
    ctx.assumptions = ["CPython 3.12 (/venv); PY_array_arg=list; numpy-using wrappers are not executed",
                       "integers are generated inside the C type's range; what Python does with out-of-range integers is not "
                       "regulated by the property",
                       "8/16-bit fixed-width integer arguments, unsigned upper-half values, reference results together with a "
                       "cleanup label and object finalisation are recorded findings: excluded from the main search, probed",
                       "a bad call is: too few / too many arguments, an unknown keyword, or an argument of a type the "
                       "documented format unit rejects (float or str for int, str for float/bool, int for str/list/object)"]
    nlib = 24 if quick else 300
    jobs = []
    excluded = 0
    for lang in ("c++", "c"):
        libs = smallgen.sample(xlib.library(lang=lang, for_fortran=True, rows=pyfront.PY_ROWS, results=pyfront.PY_RESULTS,
                                            types=pyfront.PY_TYPES, ovl_sigs=pyfront.PY_OVL_SIGS),
                               ctx.seed + len(jobs), nlib if lang == "c++" else nlib // 2)
        for lib in libs:
            excluded += sanitize(lib)
            jobs.append((len(jobs), lib, "python", None, False))
    # dispatch-focused family: small libraries that always carry an overload set and a function with default arguments
    for lib in smallgen.sample(xlib.library(lang="c++", nfunc=(1, 2), for_fortran=True, rows=pyfront.PY_ROWS,
                                            results=pyfront.PY_RESULTS, types=pyfront.PY_TYPES, ovl_sigs=pyfront.PY_OVL_SIGS,
                                            with_overloads=True, with_class=False, with_coercion=True), ctx.seed + 500, nlib):
        excluded += sanitize(lib)
        jobs.append((len(jobs), lib, "python", None, False))
    # class-focused family (static methods with arguments, constructors, methods)
    for lib in smallgen.sample(xlib.library(lang="c++", nfunc=(0, 1), for_fortran=True, rows=pyfront.PY_ROWS,
                                            results=pyfront.PY_RESULTS, types=pyfront.PY_TYPES, ovl_sigs=pyfront.PY_OVL_SIGS,
                                            with_overloads=False, with_class=True), ctx.seed + 700, nlib // 2):
        excluded += sanitize(lib)
        jobs.append((len(jobs), lib, "python", None, False))
    ctx.exclude_known("probe:reference-result-with-cleanup-label", excluded)
    # struct arguments and results as extension types (python.rst PY_struct_arg: class; struct-class-c / -cxx)
    from ..exec import structs_e2e
    structs_e2e.run_structs(ctx, "python", 8 if quick else 120, configs=({"wrap_python": True, "PY_struct_arg": "class"},))
    # class member variables as attributes (+readonly raises AttributeError, +name), subclass instances reach the base
    # class's attributes and methods
    from ..exec import members_e2e
    members_e2e.run_members(ctx, "python", 4 if quick else 80)
    for out in core.pool_map(_gen_job, jobs):
        ctx.case(n=out["ncalls"], label=out["labels"])
        for nt in out["nontrivial"]:
            ctx.case(n=0, nontrivial=nt)
        if out["sample"]:
            ctx.case(n=0, sample=out["sample"])
        for key, case, note in out["problems"]:
            ctx.failure(key, case, expected="stream predicted by the reference model", observed=note, note=note)
    for name, why in core.pool_map(_probe_job, PROBES):
        ctx.case(label="probe")
        if why:
            ctx.failure("probe:" + name, dict(probe=name), observed=why, note="%s: %s" % (name, why))


def replay(ctx, rec):
    c = rec["case"]
    if "struct_case" in c:
        from ..exec import structs_e2e
        return structs_e2e.replay_case(ctx, rec)
    if "member_case" in c:
        from ..exec import members_e2e
        return members_e2e.replay_case(ctx, rec)
    if c.get("probe"):
        why = dict(PROBES)[c["probe"]]()
        if why:
            ctx.failure("probe:" + c["probe"], c, observed=why, note=why)
        return
    callcheck.replay_case(ctx, rec)
