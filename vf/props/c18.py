"""C18 - the generated Lua binding is call-equivalent to the wrapped library.

Generated libraries restricted to the subset the Lua wrapper supports (scalars,
bool, std::string, classes with overloaded constructors / destructor / methods
with arguments, overload sets distinguishable by (count, Lua type), default
arguments) are wrapped; the binding is compiled against the reference Lua C-API
emulator (vf/luaemu) and driven with matching stacks for every call vector and
non-matching stacks (eight numbers, one userdata) for every dispatching function.
The stream (library receive log, result count, pushed results) must equal the
reference model; non-matching stacks must raise a Lua error without reaching the
library.
"""
import os
import shutil
import tempfile

from .. import core, shroud_run, smallgen
from ..exec import xlib, callcheck, luafront, drivers

LEVEL = "exploration"


def _gen_job(job):
    return callcheck._job(job)


def probe_string_bool_overload():
    """ovl(bool) next to ovl(const std::string &): which one does a Lua string reach?"""
    lib = dict(name="XLib", language="c++", cheader="xlib.hpp", classes=[], funcs=[])
    f1 = dict(name="ovlFunc", fid=1, cls=None, kind="func", params=[xlib.P("a0", "B1", "bool", "bool a0")], ret=None, const=False,
              suffix=None, overload_index=0, noverload=2, calls=[dict(inputs={"a0": True}, outputs={})])
    f2 = dict(name="ovlFunc", fid=2, cls=None, kind="func", params=[xlib.P("a0", "S3in", "string", "const std::string &a0")],
              ret=None, const=False, suffix=None, overload_index=1, noverload=2,
              calls=[dict(inputs={"a0": dict(text="ab", flen=2)}, outputs={})])
    lib["funcs"] = [f1, f2]
    res = callcheck.wrap_and_run(lib, "lua", None)
    probs = callcheck.judge(lib, res, "lua")
    return probs[0][1] if probs else None


def probe_same_name_namespaces():
    """Two functions of the same name in two namespaces: both must stay reachable."""
    y = ("library: XLib\ncxx_header: xlib.hpp\noptions:\n  wrap_lua: true\n  wrap_c: false\n  wrap_fortran: false\n  wrap_python: false\n"
         "declarations:\n- decl: void same(int a)\n- decl: namespace outer\n  declarations:\n  - decl: void same(int a)\n")
    work = tempfile.mkdtemp(prefix="vf18p_", dir=core.scratch_root())
    try:
        r = shroud_run.run_yaml(y, [], workdir=work, name="xlib")
        if r.status != "ok":
            return "Shroud stops: " + r.describe()
        outd = os.path.join(work, "out")
        srcs = {"xlib.hpp": "#ifndef XLIB_HPP\n#define XLIB_HPP\nvoid same(int a);\nnamespace outer { void same(int a); }\n#endif\n",
                "xlib.cpp": '#include "xlib.hpp"\n#include <stdio.h>\nvoid same(int a) { printf("E 1 %d\\n", a); fflush(stdout); }\n'
                            'namespace outer { void same(int a) { printf("E 2 %d\\n", a); fflush(stdout); } }\n'
                            'extern "C" void vf_live_report(void) {}\n',
                "vf_support.h": xlib.SUPPORT_H, "vf_support.c": xlib.SUPPORT_C}
        save_src, save_drv = xlib.subject_sources, luafront.lua_driver
        try:
            xlib.subject_sources = lambda _l: srcs
            luafront.lua_driver = lambda _l: (
                '#include <stdio.h>\n#include "lua.h"\n#include "lauxlib.h"\n#include "luaemu.h"\n'
                'extern "C" int luaopen_xlib(lua_State *L);\nint main(void) { lua_State *L = vfl_newstate(); luaopen_xlib(L); vfl_capture_module(L);\n'
                ' lua_pushinteger(L, 5); vfl_call(L, "same"); return 0; }\n')
            res = luafront.build_and_run(outd, dict(language="c++"), os.listdir(outd))
        finally:
            xlib.subject_sources, luafront.lua_driver = save_src, save_drv
        if res["stage"] != "ok":
            return "%s: %s" % (res["stage"], res["detail"][-400:])
        dup = [l for l in res["stream"] if l.startswith("N duplicate-key")]
        if dup:
            return "the module table registers the key 'same' twice (%s): one of ::same / outer::same is unreachable" % dup[0]
        return None
    finally:
        shutil.rmtree(work, ignore_errors=True)


PROBES = [("string-argument-selects-bool-overload", probe_string_bool_overload),
          ("same-name-in-two-namespaces", probe_same_name_namespaces)]


def _probe_job(item):
    return item[0], item[1]()


def run(ctx):
    quick = ctx.tier == "quick"
    ctx.rule = ("Hypothesis library models restricted to the Lua subset (N1 scalars, bool, std::string arguments; void / "
                "native / bool / std::string results; a class with overloaded constructors, destructor and methods with "
                "arguments; an overload set distinguishable by (count, Lua type); a function with 1-3 required and 1-3 default arguments) x "
                "matching stacks for every call vector + non-matching stacks for every dispatching function; evaluations = "
                "binding invocations; non-trivial = a call into an overload set / default-argument function / method, or a "
                "non-matching stack; distinct by (function shape, stack)")
    ctx.assumptions = ["no Lua runtime is installed: the binding runs against the reference emulator in vf/luaemu, which "
                       "implements the 25 API entry points the wrapper uses with Lua 5.3 signatures and semantics",
                       "const char * arguments/results, class-pointer arguments/results of free functions and static methods "
                       "are outside the supported subset (corpus switches them off for Lua; the wrapper emits no code for them)",
                       "integers are kept in the signed 64-bit range of lua_Integer",
                       "plain functions are only driven with matching stacks (the wrapper contains no argument checking for "
                       "them and the property requires an error only where no signature matches)"]
    nlib = 32 if quick else 500
    libs = smallgen.sample(xlib.library(lang="c++", for_fortran=True, rows=luafront.LUA_ROWS, results=luafront.LUA_RESULTS,
                                        types=luafront.LUA_TYPES, ovl_sigs=xlib.OVL_SIGS_LUA), ctx.seed, nlib)
    # dispatch-focused family: small libraries that always carry an overload set (members with their own
    # result types) and a default-argument function (1-3 required + 1-3 defaulted parameters)
    libs += smallgen.sample(xlib.library(lang="c++", nfunc=(1, 2), for_fortran=True, rows=luafront.LUA_ROWS,
                                         results=luafront.LUA_RESULTS, types=luafront.LUA_TYPES, ovl_sigs=xlib.OVL_SIGS_LUA,
                                         with_overloads=True), ctx.seed + 1000, 32 if quick else 500)
    jobs = []
    for lib in libs:
        luafront.restrict(lib)
        jobs.append((len(jobs), lib, "lua", None, False))
    ctx.exclude_known("probe:string-argument-selects-bool-overload", 0)
    for out in core.pool_map(_gen_job, jobs):
        ctx.case(n=out["ncalls"], label=out["labels"])
        for nt in out["nontrivial"]:
            ctx.case(n=0, nontrivial=nt)
        if out["sample"]:
            ctx.case(n=0, sample=out["sample"])
        for key, case, note in out["problems"]:
            ctx.failure(key, case, expected="stream predicted by the reference model", observed=note, note=note)
    for name, why in core.pool_map(_probe_job, PROBES):
        ctx.case(label="probe")
        if why:
            ctx.failure("probe:" + name, dict(probe=name), observed=why, note="%s: %s" % (name, why))


def replay(ctx, rec):
    c = rec["case"]
    if c.get("probe"):
        why = dict(PROBES)[c["probe"]]()
        if why:
            ctx.failure("probe:" + c["probe"], c, observed=why, note=why)
        return
    callcheck.replay_case(ctx, rec)
