"""C09 - declarations are understood exactly as a C++ compiler understands them.

For Hypothesis-generated declarations (vf/declgen.py, only legal C++):
 S   the structure Shroud records (todict.to_dict) equals the generator's model
     of the declaration (type, cv placement, pointer/reference chain with its
     qualifiers, name, arrays, parameter list, const method, attributes, default
     values)
 O1  g++ decides: static_assert(std::is_same<decltype(original), decltype(
     Shroud's rendering)>) for gen_decl() of the whole declaration,
     gen_arg_as_cxx() of every named parameter and of the result, and
     gen_arg_as_c() against the documented C counterpart
 O2  parse(gen_decl(parse(d))) == parse(d) for declarations without default
     values, attributes included (scalars compared as strings)
 O3  expressions: parse/print round trip, and for constant expressions equal
     value of original and printed text as evaluated by g++
"""
import os
import re
import subprocess
import tempfile
import shutil

from hypothesis import given, seed, strategies as st

from .. import core, declgen

LEVEL = "exploration"

TYPEMAP_NAME = {"unsigned int": "unsigned_int", "unsigned short": "unsigned_short", "unsigned long": "unsigned_long",
                "unsigned long long": "unsigned_long_long", "long long": "long_long"}

PRELUDE_C = """
typedef struct vf_s_CC_Class1 CC_Class1;
"""

STRIP = """
template<class T> struct vf_wrap {};
template<class C, class T> vf_wrap<T> vf_strip(T C::*);
"""


def expected_dict(m):
    """What to_dict(parse(d)) must contain for model m (only the compared keys)."""
    base = m["base"]
    d = {}
    if base.startswith("std::vector<"):
        d["typemap_name"] = "std::vector"
        arg = base[len("std::vector<"):-1]
        d["template_arguments"] = [TYPEMAP_NAME.get(arg, arg)]
    else:
        d["typemap_name"] = TYPEMAP_NAME.get(base, base)
    d["const"] = bool(m["const"])
    d["volatile"] = bool(m["volatile"])
    ptrs = [dict(ptr=op, const=bool(c), volatile=bool(v)) for op, c, v in m["ptrs"]]
    if m["kind"] == "fptr":
        inner = m.get("inner") or [["*", False, False]]
        d["declarator"] = dict(pointer=ptrs, func=dict(pointer=[dict(ptr=op, const=bool(c), volatile=bool(v)) for op, c, v in inner],
                                                       name=m["name"]))
        d["params"] = [expected_dict(p) for p in m["params"]]
    elif m["kind"] == "parr":
        d["declarator"] = dict(pointer=ptrs, func=dict(pointer=[dict(ptr="*", const=bool(m.get("inner_const")), volatile=False)],
                                                       name=m["name"]))
        d["params"] = None
        d["array"] = list(m["array"])
    else:
        if m.get("name") is None and not ptrs:
            d["declarator"] = None
        else:
            d["declarator"] = dict(pointer=ptrs, name=m.get("name"))
        if m["kind"] == "func":
            d["params"] = [expected_dict(p) for p in m["params"]]
            d["func_const"] = bool(m.get("func_const"))
        else:
            d["params"] = None
        d["array"] = list(m.get("array") or [])
    d["attrs"] = dict(m.get("attrs") or {})
    d["init"] = m.get("init")
    return d


def observed_dict(t):
    """Project to_dict output onto the compared keys."""
    d = {"typemap_name": t.get("typemap_name")}
    if t.get("template_arguments"):
        d["template_arguments"] = [x.get("typemap_name") for x in t["template_arguments"]]
    d["const"] = t.get("const") in (True, "True")
    d["volatile"] = t.get("volatile") in (True, "True")

    def ptrs(lst):
        return [dict(ptr=p["ptr"], const=p.get("const") in (True, "True"), volatile=p.get("volatile") in (True, "True"))
                for p in lst]
    dec = t.get("declarator")
    if dec is None:
        d["declarator"] = None
    elif "func" in dec:
        d["declarator"] = dict(pointer=ptrs(dec["pointer"]),
                               func=dict(pointer=ptrs(dec["func"]["pointer"]), name=dec["func"].get("name")))
    else:
        d["declarator"] = dict(pointer=ptrs(dec["pointer"]), name=dec.get("name"))
    if "params" in t:
        d["params"] = [observed_dict(p) for p in t["params"]]
        if "func" not in (dec or {}):
            d["func_const"] = t.get("func_const") in (True, "True")
    else:
        d["params"] = None
    if not (dec and "func" in dec) or "array" in t:
        d["array"] = [a.get("constant") if isinstance(a, dict) and "constant" in a else repr(a) for a in t.get("array", [])]
    d["attrs"] = {k: str(v) for k, v in (t.get("attrs") or {}).items() if not k.startswith("_")}
    init = t.get("init")
    d["init"] = None if init is None else _num(init)
    return d


def _num(x):
    s = str(x)
    return s


def norm_init(d):
    """Model default values are text; Shroud stores numbers: compare numerically where possible."""
    def conv(v):
        if v is None:
            return None
        try:
            return float(v)
        except ValueError:
            return v
    d = dict(d)
    d["init"] = conv(d.get("init"))
    if d.get("params"):
        d["params"] = [norm_init(p) for p in d["params"]]
    return d


def c_counterpart(m):
    """Documented C form of a variable-like model, or None when outside the stated map."""
    base = m["base"]
    if m["kind"] != "var" or m.get("array"):
        return None
    if base == "std::string":
        cb = "char"
    elif base.startswith("std::vector<"):
        arg = base[len("std::vector<"):-1]
        if arg == "std::string":
            return None
        cb = arg
    elif base == "Color":
        cb = "int"
    elif base == "Class1":
        cb = "CC_Class1"
    elif base in ("ns1::Inner", "ns1::ns2::Deep", "Str1", "TypeID"):
        return None
    else:
        cb = base
    if base == "bool":
        pass
    toks = []
    if m["const"]:
        toks.append("const")
    if m["volatile"]:
        toks.append("volatile")
    toks.append(cb)
    for op, c, v in m["ptrs"]:
        toks.append("*")            # references become pointers
        if c:
            toks.append("const")
        if v:
            toks.append("volatile")
    return " ".join(toks)


NATIVE_C = ("int", "long", "double", "float", "short", "char", "unsigned int", "unsigned long", "size_t", "bool", "void",
            "long long", "unsigned short", "int32_t", "int64_t", "uint32_t", "uint64_t")


def c_counterpart_fptr(m, name):
    """Documented C form of a function-pointer declaration: the result and the parameters in their C forms, every
    '&' of the grouped declarator a '*' (a reference is passed as a pointer in the C API).  None when a parameter
    is outside the plain native map."""
    if m["kind"] != "fptr":
        return None
    res = c_counterpart(dict(kind="var", base=m["base"], const=m["const"], volatile=m["volatile"], ptrs=m["ptrs"], array=[]))
    if res is None or m["base"] not in NATIVE_C:
        return None
    ps = []
    for p in m["params"]:
        if p["kind"] != "var" or p.get("array") or p["base"] not in NATIVE_C or any(op == "&" for op, _c, _v in p["ptrs"]):
            return None
        ps.append((c_counterpart(p) + " " + (p.get("name") or "")).strip())
    inner = " ".join("*" + (" const" if c else "") + (" volatile" if v else "") for _op, c, v in (m.get("inner") or [["*", False, False]]))
    return "%s (%s %s)(%s)" % (res, inner, name, ", ".join(ps))


def model_var_text(m, name):
    """Independent printer: C++ text of a variable of the model's type called `name`."""
    toks = []
    if m["const"]:
        toks.append("const")
    if m["volatile"]:
        toks.append("volatile")
    toks.append(m["base"])
    for op, c, v in m["ptrs"]:
        toks.append(op)
        if c:
            toks.append("const")
        if v:
            toks.append("volatile")
    s = " ".join(toks)
    if m["kind"] == "fptr":
        ps = ", ".join(model_var_text(p, p.get("name") or "") for p in m["params"])
        inner = " ".join(op + (" const" if c else "") + (" volatile" if v else "") for op, c, v in (m.get("inner") or [["*", False, False]]))
        return "%s (%s %s)(%s)" % (s, inner, name, ps)
    if m["kind"] == "parr":
        return "%s (*%s%s)%s" % (s, "const " if m.get("inner_const") else "", name, "".join("[%s]" % a for a in m["array"]))
    s += " " + name
    for a in m.get("array") or []:
        s += "[%s]" % a
    return s


class TU(object):
    def __init__(self):
        self.lines = [declgen.PRELUDE, PRELUDE_C, STRIP]
        self.map = {}   # line number -> (case index, what, role)
        self.n = self.lines[0].count("\n") + self.lines[1].count("\n") + self.lines[2].count("\n") + 3
        self.text = None
        self.count = 0

    def _add(self, line, tag):
        self.lines.append(line)
        self.n = sum(x.count("\n") + 1 for x in self.lines)
        self.map[self.n] = tag

    def add_pair(self, idx, what, orig, rend, name, in_class=False, is_func=False):
        """orig / rend: declaration texts (without trailing ';') declaring `name`."""
        k = self.count
        self.count += 1
        if in_class and is_func:
            self._add("struct o%d { %s; };" % (k, orig), (idx, what, "orig"))
            self._add("struct r%d { %s; };" % (k, rend), (idx, what, "rend"))
            self._add("static_assert(std::is_same<decltype(vf_strip(&o%d::%s)), decltype(vf_strip(&r%d::%s))>::value, \"differs\");"
                      % (k, name, k, name), (idx, what, "assert"))
        else:
            ext = "" if is_func else "extern "
            self._add("namespace o%d { %s%s; }" % (k, ext, orig), (idx, what, "orig"))
            self._add("namespace r%d { %s%s; }" % (k, ext, rend), (idx, what, "rend"))
            self._add("static_assert(std::is_same<decltype(o%d::%s), decltype(r%d::%s)>::value, \"differs\");"
                      % (k, name, k, name), (idx, what, "assert"))

    def compile(self, workdir, tag):
        path = os.path.join(workdir, "tu_%s.cpp" % tag)
        with open(path, "w") as fp:
            fp.write("\n".join(self.lines) + "\n")
        cp = subprocess.run(["g++", "-std=c++11", "-fsyntax-only", "-fmax-errors=0", "-w", path],
                            capture_output=True, text=True, timeout=600)
        bad = {}
        for ln in cp.stderr.split("\n"):
            m = re.match(r"^%s:(\d+):\d+: error: (.*)$" % re.escape(path), ln)
            if m:
                no = int(m.group(1))
                if no in self.map:
                    bad.setdefault(self.map[no], m.group(2))
                else:
                    bad.setdefault((None, "unmapped", str(no)), m.group(2))
        if cp.returncode != 0 and not bad:
            raise core.HarnessError("g++ failed without a mapped error:\n" + cp.stderr[:2000])
        return bad


def process_decl(idx, d, tu):
    """Parse with Shroud, run the pure-Python oracles, queue compiler pairs.
    Returns list of (key, note)."""
    from shroud import declast, todict
    problems = []
    lib, cls = declgen.make_library()
    ns = cls if d["context"] == "class" else lib
    text = d["text"]
    try:
        ast = declast.check_decl(text, namespace=ns)
    except RuntimeError as e:
        return [("rejected", "generated (documented-grammar) declaration rejected: %s" % str(e).split("\n")[-1])]
    m = d["model"]
    # ---- S structure
    exp = norm_init(expected_dict(m))
    obs = norm_init(observed_dict(todict.to_dict(ast)))
    if exp != obs:
        diff = [k for k in sorted(set(exp) | set(obs)) if exp.get(k) != obs.get(k)]
        problems.append(("structure:" + ",".join(diff),
                         "recorded structure differs from what the text declares in %s: expected %r, recorded %r"
                         % (diff, {k: exp.get(k) for k in diff}, {k: obs.get(k) for k in diff})))
    name = m["name"]
    is_func = m["kind"] == "func"
    in_class = d["context"] == "class"
    # ---- O1 renderings
    try:
        r1 = ast.gen_decl(attrs=False)
    except Exception as e:
        problems.append(("gen_decl-raises", "gen_decl raises %s: %s" % (type(e).__name__, e)))
        r1 = None
    if r1 is not None:
        # gen_decl(attrs=False) still annotates the parameters with their attributes (the text is
        # meant for comments and for re-parsing); the attributes are not C++ and are removed here
        r1c = re.sub(r"\+\w+(\((?:[^()]|\([^()]*\))*\))?", "", r1)
        tu.add_pair(idx, "gen_decl", d["cxx"].rstrip(";"), r1c, name, in_class=in_class, is_func=is_func)
    # parameters and result
    if is_func:
        for i, (p, pm) in enumerate(zip(ast.params, m["params"])):
            if pm.get("name") is None:
                continue
            orig = model_var_text(pm, pm["name"])
            try:
                rc = p.gen_arg_as_cxx(with_template_args=True)
            except Exception as e:
                problems.append(("gen_arg_as_cxx-raises", "gen_arg_as_cxx raises %s: %s" % (type(e).__name__, e)))
                continue
            tu.add_pair(idx, "param%d:gen_arg_as_cxx" % i, orig, rc, pm["name"])
            cc = c_counterpart(pm)
            if cc is not None:
                try:
                    rcc = p.gen_arg_as_c()
                except Exception as e:
                    problems.append(("gen_arg_as_c-raises", "gen_arg_as_c raises %s: %s" % (type(e).__name__, e)))
                    continue
                tu.add_pair(idx, "param%d:gen_arg_as_c" % i, cc + " " + pm["name"], rcc, pm["name"])
            ccf = c_counterpart_fptr(pm, pm["name"])
            if ccf is not None:
                try:
                    tu.add_pair(idx, "param%d:gen_arg_as_c" % i, ccf, p.gen_arg_as_c(), pm["name"])
                except Exception as e:
                    problems.append(("gen_arg_as_c-raises", "gen_arg_as_c raises %s: %s" % (type(e).__name__, e)))
        # result as a variable
        rm = dict(kind="var", base=m["base"], const=m["const"], volatile=m["volatile"], ptrs=m["ptrs"], array=[])
        if not (m["base"] == "void" and not m["ptrs"]):
            try:
                rr = ast.gen_arg_as_cxx(name="vf_rv", params=None, with_template_args=True)
                tu.add_pair(idx, "result:gen_arg_as_cxx", model_var_text(rm, "vf_rv"), rr, "vf_rv")
            except Exception as e:
                problems.append(("gen_arg_as_cxx-raises", "result gen_arg_as_cxx raises %s: %s" % (type(e).__name__, e)))
    else:
        try:
            rc = ast.gen_arg_as_cxx(with_template_args=True)
            tu.add_pair(idx, "var:gen_arg_as_cxx", d["cxx"].rstrip(";"), rc, name)
        except Exception as e:
            problems.append(("gen_arg_as_cxx-raises", "gen_arg_as_cxx raises %s: %s" % (type(e).__name__, e)))
        ccf = c_counterpart_fptr(m, name)
        if ccf is not None:
            try:
                tu.add_pair(idx, "var:gen_arg_as_c", ccf, ast.gen_arg_as_c(), name)
            except Exception as e:
                problems.append(("gen_arg_as_c-raises", "gen_arg_as_c raises %s: %s" % (type(e).__name__, e)))
    # ---- O2 round trip
    if not d["has_default"]:
        try:
            t2 = ast.gen_decl()
            lib2, cls2 = declgen.make_library()
            ast2 = declast.check_decl(t2, namespace=cls2 if in_class else lib2)
            a, b = observed_dict(todict.to_dict(ast)), observed_dict(todict.to_dict(ast2))
            if a != b:
                diff = [k for k in sorted(set(a) | set(b)) if a.get(k) != b.get(k)]
                problems.append(("roundtrip:" + ",".join(diff),
                                 "re-parsing Shroud's rendering %r gives a different declaration in %s: %r vs %r"
                                 % (t2, diff, {k: a.get(k) for k in diff}, {k: b.get(k) for k in diff})))
        except RuntimeError as e:
            problems.append(("roundtrip:rejected", "Shroud rejects its own rendering %r: %s" % (t2, str(e).split("\n")[-1])))
        except Exception as e:
            problems.append(("roundtrip:raises", "round trip raises %s: %s" % (type(e).__name__, e)))
    return problems


def shard_decls(sctx, n):
    decls = []

    @seed(sctx.seed)
    @core.hyp_settings(n, shrink=False)
    @given(d=declgen.declaration())
    def collect(d):
        decls.append(d)
    collect()
    work = tempfile.mkdtemp(prefix="vf09_", dir=core.scratch_root())
    try:
        batch = 150
        for b0 in range(0, len(decls), batch):
            tu = TU()
            chunk = decls[b0:b0 + batch]
            probs = {}
            for i, d in enumerate(chunk):
                probs[i] = process_decl(i, d, tu)
            bad = tu.compile(work, "%d_%d" % (sctx.shard, b0))
            sctx.extra["gxx_is_same_assertions"] = sctx.extra.get("gxx_is_same_assertions", 0) + tu.count
            for (i, what, role), msg in sorted(bad.items(), key=lambda kv: str(kv[0])):
                if i is None:
                    raise core.HarnessError("unmapped compiler error: %s %s" % (role, msg))
                if role == "orig":
                    raise core.HarnessError("generator produced invalid C++: %r: %s" % (chunk[i]["cxx"], msg))
                kind = "not-compilable" if role == "rend" else "different-type"
                probs[i].append(("compiler:%s:%s" % (what.split(":")[-1], kind),
                                 "%s of %r: g++ says %s" % (what, chunk[i]["text"], msg)))
            for i, d in enumerate(chunk):
                m = d["model"]
                nops = len(m["ptrs"]) + len(m.get("array") or []) + sum(len(p["ptrs"]) for p in m.get("params") or [])
                nt = nops >= 2 or "cv-inner" in d["feats"]
                sctx.case(sample=dict(text=d["text"], context=d["context"]) if nt and len(sctx.samples) < 2 else None,
                          nontrivial=d["text"] if nt else None, label=d["feats"] or ["plain"])
                for key, note in probs[i]:
                    vol = "volatile" in d["feats"]
                    sctx.failure(key, dict(part="decl", decl=d), expected="same type / same declaration", observed=note,
                                 note=note)
    finally:
        shutil.rmtree(work, ignore_errors=True)


# ---------------------------------------------------------------------------
# O3 expressions

@st.composite
def expr(draw, depth=0, constant=False):
    if depth >= 4 or draw(st.integers(0, 2)) == 0:
        r = draw(st.integers(0, 9))
        if constant or r < 6:
            return str(draw(st.sampled_from([0, 1, 2, 3, 7, 10, 12, 100])))
        if r < 8:
            return draw(st.sampled_from(["n", "a", "count"]))
        return "%s(%s)" % (draw(st.sampled_from(["size", "len", "f"])), draw(st.sampled_from(["a", "n", "a,2"])))
    k = draw(st.sampled_from(["bin", "bin", "bin", "paren", "unary"]))
    if k == "bin":
        op = draw(st.sampled_from(["+", "-", "*", "/"]))
        sp = draw(st.sampled_from(["", " "]))
        return draw(expr(depth + 1, constant)) + sp + op + sp + draw(expr(depth + 1, constant))
    if k == "paren":
        return "(" + draw(expr(depth + 1, constant)) + ")"
    return draw(st.sampled_from(["-", "+"])) + draw(expr(depth + 1, constant))


def strip_parens(t):
    """The tree shape carries the grouping; parenthesis nodes are redundant for meaning."""
    if isinstance(t, dict):
        if set(t) == {"node"}:
            return strip_parens(t["node"])
        return {k: strip_parens(v) for k, v in t.items()}
    if isinstance(t, list):
        return [strip_parens(x) for x in t]
    return t


def shard_exprs(sctx, n):
    from shroud import declast, todict
    items = []

    @seed(sctx.seed + 3)
    @core.hyp_settings(n, shrink=False)
    @given(e=st.one_of(expr(constant=True), expr()))
    def collect(e):
        items.append(e)
    collect()
    consts = []
    for e in items:
        try:
            node = declast.check_expr(e)
        except RuntimeError as ex:
            sctx.case(label="expr:rejected")
            sctx.failure("expr:rejected", dict(part="expr", expr=e), observed=str(ex).split("\n")[-1],
                         note="expression of the documented grammar rejected: %r" % e)
            continue
        p = todict.print_node(node)
        nt = any(c in e for c in "()") or e.count("-") + e.count("+") >= 2
        sctx.case(nontrivial=("expr", e) if nt else None, label="expr",
                  sample=dict(expr=e, printed=p) if nt and len(sctx.samples) < 4 else None)
        try:
            node2 = declast.check_expr(p)
            if strip_parens(todict.to_dict(node2)) != strip_parens(todict.to_dict(node)):
                sctx.failure("expr:roundtrip", dict(part="expr", expr=e), expected=e, observed=p,
                             note="printed form %r of %r parses to a different expression" % (p, e))
        except RuntimeError as ex:
            sctx.failure("expr:printed-form-rejected", dict(part="expr", expr=e), expected=e, observed=p,
                         note="printed form %r of %r is rejected: %s" % (p, e, str(ex).split("\n")[-1]))
        if re.match(r"^[0-9+\-*/() ]+$", e):
            consts.append((e, p))
    if consts:
        judge_const_exprs(sctx, consts)


def judge_const_exprs(sctx, consts):
    """g++ evaluates original and printed text; division by zero cases are skipped by g++'s own diagnostics."""
    work = tempfile.mkdtemp(prefix="vf09e_", dir=core.scratch_root())
    try:
        lines = ["#include <cstdio>", "int main() {"]
        for i, (e, p) in enumerate(consts):
            lines.append("#ifdef CASE%d" % i)
            lines.append("{ constexpr long a = %s; constexpr long b = %s; static_assert(a == b, \"value\"); }" % (e, p))
            lines.append("#endif")
        lines.append("return 0; }")
        # one TU, every case guarded: first compile all originals to find ill-formed constants (div by zero)
        src = ["int main() {"]
        lmap = {}
        for i, (e, p) in enumerate(consts):
            src.append("{ constexpr long a = %s; (void)a; }" % e)
            lmap[len(src)] = (i, "orig")
            src.append("{ constexpr long a = %s; constexpr long b = %s; static_assert(a == b, \"value\"); }" % (e, p))
            lmap[len(src)] = (i, "pair")
        src.append("return 0; }")
        path = os.path.join(work, "e.cpp")
        open(path, "w").write("\n".join(src) + "\n")
        cp = subprocess.run(["g++", "-std=c++11", "-fsyntax-only", "-fmax-errors=0", "-w", path],
                            capture_output=True, text=True, timeout=600)
        bad = {}
        for ln in cp.stderr.split("\n"):
            m = re.match(r"^%s:(\d+):\d+: error: (.*)$" % re.escape(path), ln)
            if m and int(m.group(1)) in lmap:
                bad.setdefault(lmap[int(m.group(1))], m.group(2))
        invalid = set(i for (i, role) in bad if role == "orig")
        for (i, role), msg in sorted(bad.items()):
            if role == "pair" and i not in invalid:
                e, p = consts[i]
                sctx.failure("expr:value", dict(part="expr", expr=e), expected=e, observed=p,
                             note="printed form %r of constant expression %r: g++ says %s" % (p, e, msg))
        sctx.case(n=0, label="expr:const-evaluated")
        sctx.extra["constant_expressions_evaluated_by_gxx"] = sctx.extra.get("constant_expressions_evaluated_by_gxx", 0) + len(consts) - len(invalid)
    finally:
        shutil.rmtree(work, ignore_errors=True)


def run(ctx):
    quick = ctx.tier == "quick"
    ctx.rule = ("Hypothesis declarations from the documented grammar (specifier spellings, cv at every level, */&/**/*& chains "
                "to depth 3, arrays, function pointers, std::vector/std::string/qualified names, parameter lists to 4, "
                "attributes, default values; library and class context) and expressions to depth 4; non-trivial = >= 2 "
                "declarator operators or a cv-qualifier not in first position (declarations), parentheses or >= 2 signs "
                "(expressions); distinct by text")
    ctx.assumptions = ["g++ 12 -std=c++11 is the reference C++ compiler; the prelude of vf/declgen.py declares the named types",
                       "documented C counterpart used for gen_arg_as_c: reference->pointer, std::string->char, "
                       "std::vector<T>->T, enum->int, class->capsule struct {C_prefix}{class}; other named types are skipped",
                       "constant expressions that g++ itself rejects (division by zero) are skipped"]
    n = 3200 if quick else 64000
    core.run_sharded(ctx, "vf.props.c09", "shard_decls", n=n // core.NCPU)
    ne = 1600 if quick else 32000
    core.run_sharded(ctx, "vf.props.c09", "shard_exprs", n=ne // core.NCPU)


def replay(ctx, rec):
    c = rec["case"]
    sctx = core.ShardCtx(ctx.pid, ctx.tier, ctx.level, ctx.seed)
    sctx.shard = 0
    if c["part"] == "expr":
        from shroud import declast, todict
        e = c["expr"]
        try:
            node = declast.check_expr(e)
            p = todict.print_node(node)
            node2 = declast.check_expr(p)
            if strip_parens(todict.to_dict(node2)) != strip_parens(todict.to_dict(node)):
                sctx.failure("expr:roundtrip", c, observed=p)
            if re.match(r"^[0-9+\-*/() ]+$", e):
                judge_const_exprs(sctx, [(e, p)])
        except RuntimeError as ex:
            sctx.failure("expr:rejected", c, observed=str(ex))
    else:
        d = c["decl"]
        work = tempfile.mkdtemp(prefix="vf09r_", dir=core.scratch_root())
        try:
            tu = TU()
            probs = process_decl(0, d, tu)
            bad = tu.compile(work, "replay")
            for (i, what, role), msg in bad.items():
                if role != "orig":
                    probs.append(("compiler:%s" % what, "%s: %s" % (what, msg)))
            for key, note in probs:
                sctx.failure(key, c, observed=note, note=note)
        finally:
            shutil.rmtree(work, ignore_errors=True)
    for f in sctx.fail_list:
        ctx.failure(**f)
