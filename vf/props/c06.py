"""C06 - wrapped objects and returned memory are released exactly once, never early.

(1) histories: for each generated class-bearing library one ASan build of an
    interpreter driver (C and Fortran front ends); a Hypothesis rule-based state
    machine draws call sequences over {construct, method call, copy handle,
    delete, delete again, owned / borrowed result, use through a free function,
    plain string/array calls}; the library's live-object count is reported after
    every step and compared with the reference model; AddressSanitizer and
    LeakSanitizer must stay silent.
(2) temporary buffers: the C01/C02 call plans (strings, arrays, all lengths) are
    re-run with AddressSanitizer/LeakSanitizer on exact-size Fortran actuals.
(The upstream executed tests are NOT used here: their own test programs and
libraries leak objects and write unterminated strings, i.e. are not sanitizer
clean for reasons that have nothing to do with the wrappers.)
"""
import os
import re
import shutil
import tempfile

import hypothesis
from hypothesis import settings, strategies as st, Phase, HealthCheck
from hypothesis.stateful import RuleBasedStateMachine, rule, precondition, initialize, run_state_machine_as_test

from .. import core, shroud_run, smallgen
from ..exec import xlib, drivers, history, callcheck, upstream

LEVEL = "exploration"


def make_machine(lib, front, exe, record):
    cat = history.catalog(lib)
    idx = {k: [i for i, (kind, f) in enumerate(cat) if kind == k] for k in ("new", "mcall", "make", "use", "call")}
    dtor_fid = lib["classes"][0]["dtor_fid"]
    slots = st.integers(0, history.NSLOT - 1)

    class Machine(RuleBasedStateMachine):
        def __init__(self):
            super().__init__()
            self.m = history.Model(lib, front)
            self.ops = []
            self.tags = set()

        @rule(f=st.sampled_from(idx["new"]), s=slots)
        def construct(self, f, s):
            if not self.m.free_slot(s):
                return
            self.ops.append(self.m.op_new(f, s))
            self.tags.add("construct")

        @rule(f=st.sampled_from(idx["mcall"]), s=slots)
        def method(self, f, s):
            if not self.m.usable(s):
                return
            self.ops.append(self.m.op_mcall(f, s))
            self.tags.add("method")

        @rule(f=st.sampled_from(idx["use"]), s=slots)
        def use(self, f, s):
            if not self.m.usable(s):
                return
            self.ops.append(self.m.op_use(f, s))

        @rule(src=slots, dst=slots)
        def copy_handle(self, src, dst):
            if src == dst or not self.m.usable(src) or not self.m.free_slot(dst):
                return
            self.ops.append(self.m.op_copy(src, dst))
            self.tags.add("copy")

        @rule(s=slots)
        def delete(self, s):
            h = self.m.slots[s]
            if h is None:
                return
            if h["state"] == "dangling":
                return            # alias of an object deleted through another handle: undefined in C++ too
            if h["state"] == "live" and not h["owned"]:
                return            # deleting a library-owned object is the caller's error
            if h["state"] == "live":
                self.tags.add("delete-after-method" if "method" in self.tags else "delete")
            else:
                self.tags.add("delete-again")
            self.ops.append(self.m.op_del(s, dtor_fid))

        @rule(f=st.sampled_from(idx["make"]), s=slots)
        def obtain(self, f, s):
            if not self.m.free_slot(s):
                return
            self.ops.append(self.m.op_make(f, s))
            self.tags.add("owned-result" if cat[f][1]["owned"] else "borrowed-result")

        if idx["call"]:
            @rule(f=st.sampled_from(idx["call"]))
            def plain_call(self, f):
                self.ops.append(self.m.op_call(f))

        def teardown(self):
            # finalise: the caller releases everything it still owns
            for s in range(history.NSLOT):
                h = self.m.slots[s]
                if h is not None and h["state"] == "live" and h["owned"]:
                    self.ops.append(self.m.op_del(s, dtor_fid))
            if not self.ops:
                return
            rc, stream, err = history.run_history(exe, self.ops)
            record(self.ops, self.tags, rc, stream, err, self.m.lines)
            assert rc == 0 and stream == self.m.lines
    return Machine


def _lib_job(job):
    idx, lib, front, nhist, steps, seed_value = job
    out = dict(idx=idx, n=0, problems=[], nontrivial=[], sample=None, labels={})
    work = tempfile.mkdtemp(prefix="vf06_", dir=core.scratch_root())
    try:
        r = shroud_run.run_yaml(xlib.to_yaml(lib), [], workdir=work, name="xlib")
        if r.status != "ok":
            out["problems"].append(("shroud", dict(lib=lib, front=front, ops=None), "Shroud stops: " + r.describe()))
            return out
        outd = os.path.join(work, "out")
        exe, res = history.build(outd, lib, os.listdir(outd), front, asan=True)
        if exe is None:
            if res["stage"] == "harness":
                raise core.HarnessError(res["detail"])
            out["problems"].append((res["stage"], dict(lib=lib, front=front, ops=None),
                                    "interpreter driver does not build: %s: %s" % (res["stage"], res["detail"][-900:])))
            return out
        last = {}

        def record(ops, tags, rc, stream, err, expected):
            out["n"] += 1
            for t in tags:
                out["labels"][t] = out["labels"].get(t, 0) + 1
            if "delete-after-method" in tags or "owned-result" in tags:
                out["nontrivial"].append("|".join(ops))
                if out["sample"] is None and len(ops) > 5:
                    out["sample"] = dict(front=front, opcodes=ops, expected_tail=expected[-6:])
            last.update(ops=list(ops), rc=rc, stream=stream, err=err, expected=list(expected))
        Machine = make_machine(lib, front, exe, record)
        try:
            run_state_machine_as_test(
                hypothesis.seed(seed_value)(Machine),
                settings=settings(max_examples=nhist, stateful_step_count=steps, deadline=None, database=None,
                                  suppress_health_check=list(HealthCheck), report_multiple_bugs=False,
                                  phases=[Phase.generate, Phase.shrink], print_blob=False))
        except AssertionError:
            ops, rc, stream, err, expected = last["ops"], last["rc"], last["stream"], last["err"], last["expected"]
            if "AddressSanitizer" in err or "LeakSanitizer" in err:
                import re
                m = re.search(r"(?:AddressSanitizer|LeakSanitizer): ([\w-]+)", err)
                key = "sanitizer:" + (m.group(1) if m else "report")
                note = "history %s: %s" % (" ; ".join(ops), err[:1200])
            elif rc != 0:
                key, note = "crash", "history %s: driver exit status %s: %s" % (" ; ".join(ops), rc, err[-600:])
            else:
                i = next((j for j, (a, b) in enumerate(zip(stream, expected)) if a != b), min(len(stream), len(expected)))
                e = expected[i] if i < len(expected) else "(nothing)"
                g = stream[i] if i < len(stream) else "(nothing)"
                key = "stream:" + e.split()[0] + ":" + g.split()[0]
                note = "history %s: expected %r, observed %r (line %d)" % (" ; ".join(ops), e, g, i)
            out["problems"].append((key, dict(lib=lib, front=front, ops=ops), note))
    finally:
        shutil.rmtree(work, ignore_errors=True)
    return out


@st.composite
def own_history(draw, maxlen):
    """History over three capsule variables; a read only through a pointer that is still valid."""
    from ..exec import ownptr
    n = draw(st.integers(2, maxlen))
    ops = []
    for _ in range(n):
        _lines, ptr = ownptr.model(ops)
        valid = [j for j in (1, 2, 3) if ptr[j] is not None]
        kinds = [1, 2, 2, 3, 3, 5, 6, 7] + ([4] if valid else [])
        op = draw(st.sampled_from(kinds))
        j = draw(st.sampled_from(valid)) if op == 4 else draw(st.sampled_from([1, 1, 2, 3]))
        ops.append((op, j))
    return ops


def judge_own(ops, rc, out, err):
    from ..exec import ownptr
    exp, _p = ownptr.model(ops)
    if "AddressSanitizer" in err or "LeakSanitizer" in err:
        m = re.search(r"(?:AddressSanitizer|LeakSanitizer): ([\w-]+)", err)
        return "own:sanitizer:" + (m.group(1) if m else "report"), err[:1200]
    if rc != 0:
        return "own:crash", "driver exit status %s: %s" % (rc, err[-600:])

    def split(lines):
        k = max([i for i, l in enumerate(lines) if l.startswith("OUT")] or [-1]) + 1
        return lines[:k], sorted(lines[k:])
    if split(out) != split(exp):
        a, b = split(out), split(exp)
        body_o, body_e = a[0] + a[1], b[0] + b[1]
        i = next((k for k, (x, y) in enumerate(zip(body_o, body_e)) if x != y), min(len(body_o), len(body_e)))
        e = body_e[i] if i < len(body_e) else "(nothing)"
        g = body_o[i] if i < len(body_o) else "(nothing)"
        return "own:stream:%s:%s" % (e.split()[0], g.split()[0]), "expected %r, observed %r (line %d)" % (e, g, i)
    return None, ""


def _own_job(job):
    """One ASan build of the owned-pointer library, then all histories."""
    from ..exec import ownptr
    histories = job
    out = dict(n=0, problems=[], nontrivial=[], sample=None)
    work = tempfile.mkdtemp(prefix="vf06o_", dir=core.scratch_root())
    try:
        r = shroud_run.run_yaml(ownptr.YAML, [], workdir=work, name="ownlib")
        if r.status != "ok":
            out["problems"].append(("own:shroud", dict(own_ops=None), "Shroud stops on the owned-pointer library: " + r.describe()))
            return out
        outd = os.path.join(work, "out")
        exe, (stage, detail) = ownptr.build(outd, os.listdir(outd))
        if exe is None:
            if stage == "harness":
                raise core.HarnessError(detail)
            out["problems"].append(("own:" + stage, dict(own_ops=None), detail))
            return out
        seen = set()
        for ops in histories:
            rc, lines, err = ownptr.run(exe, ops)
            out["n"] += len(ops)
            key, note = judge_own(ops, rc, lines, err)
            if any(o == 3 for o, _j in ops) and any(o in (1, 2) for o, _j in ops):
                out["nontrivial"].append(("own", tuple(ops)))
            if out["sample"] is None:
                out["sample"] = dict(part="owned-pointer", ops=ops, expected=ownptr.model(ops)[0][:8])
            if key and key not in seen:
                seen.add(key)
                # shrink: drop operations while the same key reproduces and reads stay valid
                best = list(ops)
                i = 0
                while i < len(best) and len(best) > 1:
                    cand = best[:i] + best[i + 1:]
                    okc = True
                    for k in range(len(cand)):
                        if cand[k][0] == 4 and ownptr.model(cand[:k])[1][cand[k][1]] is None:
                            okc = False
                    if okc:
                        rc2, l2, e2 = ownptr.run(exe, cand)
                        if judge_own(cand, rc2, l2, e2)[0] == key:
                            best = cand
                            continue
                    i += 1
                rc2, l2, e2 = ownptr.run(exe, best)
                out["problems"].append((key, dict(own_ops=[list(o) for o in best]),
                                        "history %s: %s" % (best, judge_own(best, rc2, l2, e2)[1])))
    finally:
        shutil.rmtree(work, ignore_errors=True)
    return out


def _up_job(name):
    return upstream.build_and_run(name, "fortran", asan=True)


def run(ctx):
    quick = ctx.tier == "quick"
    ctx.rule = ("(1) Hypothesis rule-based state machine over {construct, method, use through free function, copy handle, "
                "delete, delete again, obtain owned/borrowed result, plain string/array call} on ASan builds of generated "
                "class-bearing libraries, C and Fortran front ends; evaluations = histories + sanitised calls; non-trivial = "
                "a history containing a delete after a method call or an owned result; distinct by opcode sequence. "
                "(2) sanitised re-run of the call plans of C01/C02 (strings and arrays of all generated lengths)")
    ctx.assumptions = ["histories stay inside defined behaviour of the direct C++ API: no use or delete of an object through an "
                       "alias after it was deleted through another handle, no delete of a library-owned object",
                       "ASan/LSan of gcc 12; Fortran actual arguments are exact-size stack variables",
                       "Python front end not covered here (see C03 / known findings)"]
    nlib = 3 if quick else 20
    nhist = 60 if quick else 1000
    steps = 20 if quick else 50
    jobs = []
    for front in ("c", "fortran"):
        libs = smallgen.sample(xlib.library(lang="c++", nfunc=(1, 3), with_class=True, for_fortran=(front == "fortran")),
                               ctx.seed, nlib)
        for i, lib in enumerate(libs):
            jobs.append((len(jobs), lib, front, nhist, steps, ctx.seed * 7 + i))
    for out in core.pool_map(_lib_job, jobs):
        ctx.case(n=out["n"], label=[])
        for t, n in out["labels"].items():
            ctx.labels["history:" + t] += n
        for nt in out["nontrivial"]:
            ctx.case(n=0, nontrivial=nt)
        if out["sample"]:
            ctx.case(n=0, sample=out["sample"])
        for key, case, note in out["problems"]:
            ctx.failure(key, case, expected="live-object count of the reference model, no sanitizer report", observed=note, note=note)
    # (3) caller-owned pointer results held in capsule variables (free() and free_pattern release)
    hs = smallgen.sample(own_history(12 if quick else 30), ctx.seed + 5, 160 if quick else 3000)
    chunks = [hs[i::core.NCPU] for i in range(core.NCPU)]
    for out in core.pool_map(_own_job, [c for c in chunks if c]):
        ctx.case(n=out["n"], label="history:owned-pointer")
        for nt in out["nontrivial"]:
            ctx.case(n=0, nontrivial=nt)
        if out["sample"]:
            ctx.case(n=0, sample=out["sample"])
        for key, case, note in out["problems"]:
            ctx.failure(key, case, expected="each buffer released exactly once, none early, no sanitizer report", observed=note, note=note)
    # (2) sanitised call plans
    callcheck.run_engine(ctx, "fortran", [None, {"F_CFI": True}], 6 if quick else 60, ["c++", "c"], asan=True)
    callcheck.run_engine(ctx, "c", [None], 6 if quick else 60, ["c++"], asan=True)


def replay(ctx, rec):
    c = rec["case"]
    if "upstream" in c:
        res = _up_job(c["upstream"])
        if res["stage"] != "ok":
            ctx.failure(rec["key"], c, observed=res["detail"], note=res["detail"][:800])
        return
    if "own_ops" in c:
        ops = [tuple(o) for o in (c["own_ops"] or [])]
        out = _own_job([ops] if ops else [[(1, 1)]])
        for key, case, note in out["problems"]:
            ctx.failure(key, c, observed=note, note=note)
        return
    if c.get("ops") is None and "options" in c:
        callcheck.replay_case(ctx, rec)
        return
    lib, front, ops = c["lib"], c["front"], c["ops"]
    work = tempfile.mkdtemp(prefix="vf06r_", dir=core.scratch_root())
    try:
        r = shroud_run.run_yaml(xlib.to_yaml(lib), [], workdir=work, name="xlib")
        outd = os.path.join(work, "out")
        exe, res = history.build(outd, lib, os.listdir(outd), front, asan=True)
        if exe is None:
            ctx.failure(rec["key"], c, observed=res["detail"], note=res["detail"][:800])
            return
        if ops:
            # expected stream: re-simulate the opcodes with the model
            m = history.Model(lib, front)
            dtor = lib["classes"][0]["dtor_fid"]
            for line in ops:
                op, a, b, k, b2 = [int(x) for x in line.split()]
                {1: lambda: m.op_new(a, b), 2: lambda: m.op_mcall(a, b), 3: lambda: m.op_del(b, dtor), 4: lambda: m.op_make(a, b),
                 5: lambda: m.op_copy(b, b2), 6: lambda: m.op_call(a), 7: lambda: m.op_use(a, b)}[op]()
            rc, stream, err = history.run_history(exe, ops)
            if rc != 0 or stream != m.lines:
                ctx.failure(rec["key"], c, observed=(err or "")[:800] or "stream differs", note="history still fails")
    finally:
        shutil.rmtree(work, ignore_errors=True)
