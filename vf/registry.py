"""Table from which tools/mkmanifest.py writes MANIFEST.json."""

SETUP = ("/venv/bin/python -c 'import hypothesis, yaml' 2>/dev/null || "
         "/venv/bin/pip install --no-index --find-links /opt/veriftools/wheels hypothesis; "
         "test -d /verif/.deps/numpy || /venv/bin/pip install -q --no-index --find-links /opt/veriftools/wheels "
         "--target /verif/.deps numpy; "
         "/venv/bin/python -c 'import hypothesis, yaml'")

HOOKS = {
    "guard": "VSOCH_SHROUD_VERIF",
    "enable": "no hooks are needed: all observation points (generated files, compiler diagnostics, "
              "driver output, exceptions) are reachable from outside; checks run /repo's working tree "
              "through PYTHONPATH=/repo",
    "baseline_off_cmd": "cd /repo && /venv/bin/python -m pytest -ra -q -p no:cacheprovider --timeout=900 "
                        "--continue-on-collection-errors",
    "source_commits": [],
    "add_only": True,
}

NOTES = ("Every check: ./check <ID> --tier quick|thorough ; exit 0 held / 1 VIOLATION / 2 harness error. "
         "VERIF_SEED selects the Hypothesis seed. Known findings: known_findings.json. See DESIGN.md.")

NOT_CLAIMED = {}

CHECKS = {
    "C13": dict(
        level="exploration",
        technique="property-based testing (Hypothesis): reference-model oracle for write_continue/write_lines "
                  "+ metamorphic token-identity of generated files across line lengths",
        design_ref="DESIGN.md section 4, C13",
        text="Hypothesis-generated logical lines and directive sequences are judged against an independent "
             "reference reading of the documented wrapping rules (text preserved modulo blanks at breaks, marker on "
             "every broken line, breaks only at hints, always at form feeds, over-long lines only without an interior "
             "hint); corpus and generated libraries are regenerated at drawn line lengths and must be token-identical, "
             "with no Fortran code line over 132 columns (also for libraries with long identifiers and eight-fold overload "
             "sets) and no tab / form feed / carriage return left in any output.",
        note="Assumes the documented preconditions of write_continue (non-empty line, no trailing form feed). "
             "Lexers in vf/lex.py are the trusted base for the metamorphic part.",
    ),
    "C17": dict(
        level="exploration",
        technique="property-based fuzzing of the parser and validators (Hypothesis token-level generation, "
                  "single-token mutation, random sequences; exhaustive attribute name x form x site product) "
                  "with an exception-class oracle and must-accept / must-reject sets",
        design_ref="DESIGN.md section 4, C17",
        text="Generated valid declarations must be accepted; mutants, random token sequences and expression strings "
             "must end in acceptance or a RuntimeError/SystemExit-style diagnostic raised by an explicit raise inside "
             "shroud/ (parser messages must carry the text and a caret), never an internal exception or a hang; text "
             "after the terminating ';', unbalanced brackets and the documented illegal attribute combinations must be "
             "rejected; every attribute name x value form x site is pushed through the whole pipeline; the real command "
             "line must exit non-zero with a message and write no wrapper source; declarations the parser accepts are pushed "
             "through the whole pipeline and must end in wrappers or a diagnostic.",
        note="Classification of diagnostic vs internal follows the exception classes named in the property. Must-reject "
             "sets are restricted to provably ill-formed text. Failures are bucketed by (exception type, innermost "
             "shroud frame) and token-minimised.",
    ),
    "C16": dict(
        level="exploration",
        technique="metamorphic property-based testing: Hypothesis-drawn option variants vs all-off baseline, "
                  "comment-free token-stream equality by independent lexers",
        design_ref="DESIGN.md section 4, C16",
        text="For corpus entries and generated libraries, every drawn on/off combination of debug, doxygen, "
             "show_splicer_comments, --write-version (globally) and literalinclude / the three options on drawn "
             "declarations must yield the same set of files and token-identical C, C++, Fortran, Python-extension and "
             "Lua sources (and comment-stripped setup.py / *_types.yaml) as the all-off baseline; thorough enumerates "
             "all 16 global combinations x version stamping for the whole corpus.",
        note="Trusted base: the lexers in vf/lex.py. Library-level literalinclude/literalinclude2 are removed from the "
             "subjects, as the property excludes them.",
    ),
    "C15": dict(
        level="exploration",
        technique="metamorphic property-based testing: Hypothesis-drawn wrapper-flag combinations, directory "
                  "assignments and per-declaration overrides judged against single-language reference runs",
        design_ref="DESIGN.md section 4, C15",
        text="For generated libraries (unique function names) and corpus entries, every drawn combination of wrap_c/"
             "fortran/python/lua, assignment of the output-directory options and per-declaration override (switch off a "
             "free function or one member of an overload set; switch on against the library level at any namespace "
             "depth) is run; "
             "files are classified by single-language reference runs with all directories distinct. Checked: an "
             "off language writes nothing; every file lies in its designated directory and every expected file is "
             "there; --cfiles/--ffiles equal the C/C++ and Fortran files present; a python/lua toggle leaves C/Fortran "
             "bytes unchanged; a switched-off declaration is absent from and a switched-on one present in that "
             "language's comment-free tokens. A class or function inside a block that switches a language off must be absent from that language's output; a C-only run writes and lists no Fortran source.",
        note="File kinds are learnt from reference runs of the same tree (so a whole kind consistently written to another "
             "directory is only noticed for the explicit rules: off-language directories empty, only setup.py in "
             "--outdir). With wrap_fortran off but wrap_c on, the bind(C) interface of the C wrapper may remain in the "
             "module; only the Fortran wrapper procedure must be gone.",
    ),
    "C14": dict(
        level="exploration",
        technique="metamorphic property-based testing: pairs of equivalent descriptions (Hypothesis-drawn placements, "
                  "option subsets, block spans) compared byte for byte",
        design_ref="DESIGN.md section 4, C14",
        text="Six relations over generated libraries and corpus entries: function-scoped option/format field on a "
             "container == on each contained function; a setting on one function leaves every sibling's generated pieces "
             "byte-identical; inline +attr == attrs:/fattrs:; --option/--language == YAML fields (bool, int and string "
             "options, both boolean spellings); wrapping a span of declarations of the library, a namespace or a class in an "
             "empty block is transparent; "
             "create_wrapper == command line.",
        note="Relation a is restricted to a curated list of settings that are read from the function's own scope "
             "(listed with their reading site in vf/props/c14.py); .json/.log are excluded from the comparison; sibling "
             "pieces are delimited by the 'Function:' headers written under debug: True.",
    ),
    "C07": dict(
        level="exploration",
        technique="property-based testing over invocation histories and environments: Hypothesis-drawn sequences run in "
                  "one process vs fresh-process references, hash-seed/cwd/environment pairs, byte comparison",
        design_ref="DESIGN.md section 4, C07",
        text="(a) real command-line runs differing in PYTHONHASHSEED, cwd and environment, (b) a pre-populated output "
             "directory, (c) Hypothesis-drawn histories of 2-6 invocations (corpus and generated libraries, C and C++, "
             "main_with_args and create_wrapper) executed in a single process, every step compared byte for byte with "
             "its fresh-process reference, (d) the same with Python's time/host/user/pid sources patched to differ.",
        note="Complete output directories are compared, including .json and .log. Wall-clock independence is checked by "
             "patching the sources, not by waiting.",
    ),
    "C12": dict(
        level="exploration",
        technique="property-based round-trip testing: Hypothesis-drawn splicer bodies and supply routes, block extraction "
                  "from regenerated output, feed-back fixed point",
        design_ref="DESIGN.md section 4, C12",
        text="After a harvest run that lists every splicer block of every output language, Hypothesis draws blocks, "
             "bodies (code-like alphabet with braces, %, quotes, blank/indented lines, trailing blanks) and the route "
             "(command-line splicer file, YAML splicer: list + --path, splicer_code, declaration-level, with junk outside "
             "markers and a losing file body against a declaration-level one); the regenerated block must equal the body "
             "modulo leading indentation and trailing blanks, unsupplied blocks keep their content, and feeding all "
             "generated files back as splicer files reproduces every block; marker lines are indented by drawn amounts, the "
             "scope part of every block name must match the namespace / class position of its declaration, and a "
             "declaration-level Fortran splicer must appear also for functions that need no wrapper otherwise.",
        note="Domain as stated by the property: body lines do not begin with a formatting metacharacter. Lines ending in "
             "'+' or containing a tab are probed separately and are recorded known findings. Getter/setter bodies of "
             "member variables (forced by Shroud) and ambiguous block names are excluded.",
    ),
    "C08": dict(
        level="exploration",
        technique="property-based testing with an independent reference model of callable signatures and documented "
                  "name stems (Hypothesis descriptions; exhaustive single-group enumeration in thorough)",
        design_ref="DESIGN.md section 4, C08",
        text="Descriptions combining overload sets, trailing defaults, function templates, fortran_generic lists, "
             "namespaces/classes and explicit or defaulted suffixes are generated; names are read from the generated "
             "headers, Fortran modules and PyMethodDef/luaL_Reg tables. For every C++ name the number of C entry points "
             "and Fortran specifics with the documented stem and an admissible suffix chain equals the number of callable "
             "signatures, all external C symbols / module entities / table keys are pairwise distinct, supplied suffixes "
             "are used, every C entry point is explained, and each generic (interface or type-bound) lists exactly the "
             "specifics of its name.",
        note="The pairing signature<->name is established by counting within a prefix-free name pool, not by "
             "re-implementing the suffix counter. Template+default argument and same-named Lua functions in two "
             "namespaces are recorded known findings (probed, excluded from the main search).",
    ),
    "C09": dict(
        level="exploration",
        technique="grammar-based property testing (Hypothesis) with three oracles: generator's structural model, g++ "
                  "static_assert(std::is_same) between original and rendering, parse/render round trip",
        design_ref="DESIGN.md section 4, C09",
        text="Declarations generated from the documented declarator grammar are parsed by Shroud; the recorded structure "
             "must equal the generator's model; g++ must accept Shroud's renderings (gen_decl, gen_arg_as_cxx of every "
             "named parameter and of the result, gen_arg_as_c against the documented C counterpart) and find them the "
             "same type as the original; re-parsing Shroud's own rendering must give the same declaration (no default "
             "values); expressions must survive print/parse and constant expressions keep their g++-evaluated value.",
        note="Trusted base: g++ 12 (-std=c++11), the prelude declaring the named types, the generator's model. "
             "gen_decl(attrs=False) is compiled after removing the parameter attributes it still prints.",
    ),
    "C11": dict(
        level="exploration",
        technique="property-based differential testing across three compilers: Hypothesis enum declarations, values "
                  "printed by g++ (original), gcc (generated header) and gfortran (generated module)",
        design_ref="DESIGN.md section 4, C11",
        text="Enum declarations over the accepted expression grammar (explicit/implicit members, references to earlier "
             "members, unary signs, parentheses, octal and decimal literals, plain and scoped, library/namespace/class "
             "scope) are wrapped 20 per YAML; every enumerator is looked up under its documented C and Fortran name and "
             "its value as printed by gcc and gfortran must equal the value g++ assigns to the original.",
        note="Trusted base: the three GNU 12 compilers. Values are bounded to +-2^20 by construction. The generator's own "
             "value model is cross-checked against g++ (disagreement is a harness error).",
    ),
    "C10": dict(
        level="exploration",
        technique="exhaustive small-scope enumeration of the extracted string helpers under ASan/UBSan against a Python "
                  "reference of the documented rule (plus end-to-end Fortran string drivers when built)",
        design_ref="DESIGN.md section 4, C10",
        text="The C and C++ source variants of ShroudStrCopy, ShroudStrBlankFill, ShroudLenTrim, ShroudStrAlloc/Free and "
             "ShroudStrArrayAlloc/Free, exactly as Shroud writes them, are compiled with AddressSanitizer and called for ALL "
             "destination/source lengths up to the bound and all contents over {a, blank, b} on exact-size heap buffers; "
             "each result must equal the documented rule (truncate or blank-pad, no NUL inside a Fortran buffer, NULL -> "
             "blanks, trimmed NUL-terminated copies) and no access may leave the given lengths.",
        note="Bounds: lengths 0..5 (quick) / 0..7 (thorough). Preconditions are the ones real callers satisfy. "
             "ShroudCopyStringAndFree/ShroudStrToArray and the statement-level len/len_trim choices are covered by the "
             "end-to-end part (vf/exec) when present.",
    ),
    "C01": dict(
        level="exploration",
        technique="property-based differential testing against a reference model: Hypothesis library models, "
                  "instrumented subject library, generated Fortran driver, stream comparison; upstream FRUIT programs "
                  "as replay tier",
        design_ref="DESIGN.md section 4, C01",
        text="Generated library descriptions are wrapped by Shroud, compiled together with a subject library that logs "
             "every received argument and returns scripted values, and driven by a Fortran program written against the "
             "documented module API; the combined call/receive/observe stream must equal the stream a reference model "
             "predicts from the description alone (trimmed NUL-terminated character input, logical<->bool, implied sizes, "
             "blank padding/truncation or exact allocation of results, array contents), for language c and c++, F_CFI off "
             "and on, debug off and on. The upstream executed Fortran tests are rebuilt against fresh wrappers as well. Function templates (every instantiation), enum arguments by their generated names and struct arguments / results (by value, by pointer in / out / inout, result by value and by pointer) are part of the executed model.",
        note="Rows executed are listed in the evidence labels. gfortran/gcc/g++ 12 on x86-64. Unsigned values are kept in "
             "the signed range for Fortran. A failing call is reduced structurally (function, call, parameters).",
    ),
    "C02": dict(
        level="exploration",
        technique="property-based differential testing against a reference model: Hypothesis library models, "
                  "instrumented C++ subject library, generated C99 driver, stream comparison; upstream testc programs as "
                  "replay tier",
        design_ref="DESIGN.md section 4, C02",
        text="As C01 with a C99 driver that includes only the generated headers and calls the documented C names: the C++ "
             "callee must log exactly the values the C caller passed (references and std::string rebuilt from their C "
             "forms, declaration order) and the caller must observe the scripted results and output arguments. Function templates and struct arguments / results are part of the executed model.",
        note="language c++ only (a C library needs no C API). A std::string returned by value has no plain C wrapper "
             "(documented) and is not driven from C.",
    ),
    "C06": dict(
        level="exploration",
        technique="stateful property-based testing (Hypothesis RuleBasedStateMachine) of call histories against a "
                  "reference model of handles and ownership, executed on AddressSanitizer/LeakSanitizer builds",
        design_ref="DESIGN.md section 4, C06",
        text="For generated class-bearing C++ libraries an interpreter driver (C and Fortran front ends) is built once "
             "with ASan; a rule-based state machine draws histories over construct / method / use / copy handle / delete / "
             "delete again / owned and borrowed results / plain calls; after every step the library's live-object count "
             "and the whole call stream must equal the reference model, objects the caller still owns are released at the "
             "end, and ASan/LSan must report nothing (use after free, double free, mismatched deallocator, leaked "
             "temporaries). Histories over three capsule variables holding caller-owned pointer results (released by free() or by "
             "a free_pattern; re-use of a capsule, delete, delete again, finalisation) must give every buffer back exactly "
             "once. The C01/C02 call plans with strings, arrays and vectors of every generated length are re-run under ASan.",
        note="Histories stay inside defined behaviour of the direct C++ API. The Python front end is not part of this "
             "check. Upstream test programs are not used (not sanitizer-clean by themselves).",
    ),
    "C03": dict(
        level="exploration",
        technique="property-based differential testing against a reference model: Hypothesis library models, compiled "
                  "CPython extension + instrumented subject library, generated Python driver performing every "
                  "positional/keyword split and bad calls",
        design_ref="DESIGN.md section 4, C03",
        text="Generated libraries restricted to the Python-admitted rows are wrapped, built against CPython 3.12 and "
             "linked with the logging subject library; the driver calls every function with every split of its arguments "
             "between positional and keyword form (keyword order reversed on odd splits) and with too few / too many / "
             "unknown-keyword / wrongly typed arguments; the stream must show the documented values delivered, the result "
             "followed by every out/inout argument (single object or tuple), TypeError/ValueError without any library "
             "call for bad calls, and methods acting on the right C++ object. Probes cover default arguments with "
             "keywords and the recorded findings. Struct arguments / results as extension types (PY_struct_arg: class) run under a pre-loaded AddressSanitizer; an overload set that C++ resolves by exact match (int vs double) must resolve the same way.",
        note="Language c and c++, PY_array_arg=list; numpy variants are not executed. Five recorded known findings are "
             "excluded by construction from the main search and probed on every run.",
    ),
    "C18": dict(
        level="exploration",
        technique="property-based differential testing against a reference model, executed on a reference Lua C-API "
                  "emulator: Hypothesis library models, generated argument stacks (matching and non-matching)",
        design_ref="DESIGN.md section 4, C18",
        text="Generated libraries in the Lua-supported subset are wrapped and the binding is compiled against the "
             "emulator in vf/luaemu; a generated driver builds every matching argument stack (plain functions, overload "
             "sets, default-argument arities, overloaded constructors, methods with arguments, __gc) and non-matching "
             "stacks for every dispatching function; the library's receive log, the reported result count and the pushed "
             "values must equal the reference model, and a non-matching stack must raise a Lua error without reaching the "
             "library.",
        note="No Lua runtime exists in the sandbox: semantics are those of the emulator (Lua 5.3 signatures). char *, "
             "class-pointer arguments/results of free functions and static methods are outside the supported subset. Two "
             "recorded known findings are excluded by construction and probed.",
    ),
    "C05": dict(
        level="exploration",
        technique="property-based compile/link matrix: Hypothesis library models x drawn configurations judged by "
                  "gcc/g++/gfortran/CPython headers/Lua emulator headers; metamorphic option variants of the upstream "
                  "corpus through its own Makefiles",
        design_ref="DESIGN.md section 4, C05",
        text="Generated libraries (executed-model families for C/Fortran, Python and Lua with a real subject library, "
             "and the wider admitted-grammar family of vf/smallgen.py with vectors, enums, structs, namespaces, templates, "
             "generics) are wrapped under drawn combinations of F_CFI, debug, doxygen, show_splicer_comments, "
             "literalinclude2 and line lengths 40..132: Shroud must succeed, headers compile alone as C and C++, all "
             "sources compile, Fortran modules compile in --ffiles order, everything links with -Wl,--no-undefined, the "
             "Python extension imports with LD_BIND_NOW. (Stratified: every kind of declaration - class, nested namespaces, overload, "
             "default, template, class template, generic, enum, struct, forward-declared class pair - occurs in every run.) Corpus entries that build in their default configuration must "
             "build with drawn option variants, and the Python/Lua modules upstream compiles must compile.",
        note="Lua is compiled against the emulator headers, not a real Lua. numpy-using sources are compiled against the "
             "numpy headers installed into .deps by setup_cmd (skipped if absent). std::vector with F_CFI is a recorded "
             "known finding (excluded, probed), as is a Python class argument by non-const reference. Libraries without a "
             "subject library are not linked; instead every Shroud helper symbol a generated object calls must be "
             "defined by a generated object.",
    ),
    "C04": dict(
        level="translation_validation",
        technique="translation validation per generated program: clang JSON AST view of the C side vs an independent "
                  "Fortran interface reader, over Hypothesis-generated libraries and the corpus; layouts and constant "
                  "tables compared through compiled C and Fortran programs",
        design_ref="DESIGN.md section 4, C04",
        text="For every generated wrapper set (generated libraries under language c/c++ and F_CFI off/on; corpus entries "
             "with their real headers) each bind(C) interface body is matched with the C function of its binding label: the "
             "function must be defined (generated code, user header or user source), have the same number of parameters and "
             "position-wise interoperable classes (scalar kind and size, value vs reference, character, void*/T**, struct "
             "pointer of equal layout, CFI descriptor, function pointer) and an interoperable result. bind(C) derived types "
             "are compared with their C structs via sizeof/offsetof vs c_sizeof/c_loc, and the SH_TYPE_* tables are "
             "evaluated by gcc and gfortran and compared name by name; enumerators of generated C headers and the parameters of "
             "the generated modules are compared the same way. Every generated library is also analysed as the second library wrapped by one process.",
        note="Trusted base: clang 14 AST, gcc/gfortran 12 on x86-64, the interoperability rule table in vf/iface.py; "
             "gfortran -fc-prototypes cross-checks the reader's arity (disagreement = harness error). Interfaces inside "
             "preprocessor conditionals are only checked when the C side is compiled too.",
    ),
}
