"""Upstream regression corpus: YAML files under regression/input and the
configurations listed in regression/do-test.py (parsed, not copied)."""
import ast
import os

from . import core

INPUT = os.path.join(core.REPO, "regression", "input")
RUNDIR = os.path.join(core.REPO, "regression", "run")


class Entry(object):
    def __init__(self, name, yaml, cmdline):
        self.name = name
        self.yaml = yaml            # basename with .yaml
        self.cmdline = list(cmdline)

    @property
    def path(self):
        return os.path.join(INPUT, self.yaml)

    def text(self):
        with open(self.path) as fp:
            return fp.read()

    def argv(self):
        """Arguments (without outdir/logdir and file name).  Extra output
        files requested by the 'none' entry are dropped (they are relative to
        cwd)."""
        av = []
        skip = 0
        for i, a in enumerate(self.cmdline):
            if skip:
                skip -= 1
                continue
            if a in ("--write-helpers", "--yaml-types", "--write-statements"):
                skip = 1
                continue
            av.append(a)
        return av + ["--path", INPUT]

    def options(self):
        d = {}
        for i, a in enumerate(self.cmdline):
            if a == "--option":
                k, v = self.cmdline[i + 1].split("=", 1)
                d[k] = v
        return d

    def language_arg(self):
        for i, a in enumerate(self.cmdline):
            if a == "--language":
                return self.cmdline[i + 1]
        return None

    def __repr__(self):
        return "Entry(%s)" % self.name


def entries():
    src = open(os.path.join(core.REPO, "regression", "do-test.py")).read()
    tree = ast.parse(src)
    res = []
    for node in ast.walk(tree):
        if isinstance(node, ast.Call) and getattr(node.func, "id", None) == "TestDesc":
            try:
                args = [ast.literal_eval(a) for a in node.args]
                kw = {k.arg: ast.literal_eval(k.value) for k in node.keywords}
            except ValueError:
                continue  # TestDesc(testname) with a variable
            name = args[0]
            yaml = (kw.get("yaml") or name) + ".yaml"
            res.append(Entry(name, yaml, kw.get("cmdline") or []))
    res.sort(key=lambda e: e.name)
    return res


def by_name(name):
    for e in entries():
        if e.name == name:
            return e
    raise KeyError(name)


def yaml_files():
    return sorted(f for f in os.listdir(INPUT) if f.endswith(".yaml"))
