/* Reference Lua C-API emulator (subset used by Shroud's Lua wrappers).
 * Signatures follow Lua 5.3's lua.h. */
#ifndef VF_LUA_H
#define VF_LUA_H
#include <stddef.h>
#ifdef __cplusplus
extern "C" {
#endif
#define LUA_VERSION_NUM 503
#define LUA_TNONE (-1)
#define LUA_TNIL 0
#define LUA_TBOOLEAN 1
#define LUA_TLIGHTUSERDATA 2
#define LUA_TNUMBER 3
#define LUA_TSTRING 4
#define LUA_TTABLE 5
#define LUA_TFUNCTION 6
#define LUA_TUSERDATA 7
typedef struct lua_State lua_State;
typedef long long lua_Integer;
typedef double lua_Number;
typedef int (*lua_CFunction)(lua_State *L);
int lua_gettop(lua_State *L);
void lua_settop(lua_State *L, int idx);
int lua_type(lua_State *L, int idx);
lua_Integer lua_tointegerx(lua_State *L, int idx, int *isnum);
lua_Number lua_tonumberx(lua_State *L, int idx, int *isnum);
#define lua_tointeger(L, i) lua_tointegerx(L, (i), NULL)
#define lua_tonumber(L, i) lua_tonumberx(L, (i), NULL)
int lua_toboolean(lua_State *L, int idx);
const char *lua_tolstring(lua_State *L, int idx, size_t *len);
#define lua_tostring(L, i) lua_tolstring(L, (i), NULL)
void lua_pushnil(lua_State *L);
void lua_pushinteger(lua_State *L, lua_Integer n);
void lua_pushnumber(lua_State *L, lua_Number n);
void lua_pushboolean(lua_State *L, int b);
const char *lua_pushstring(lua_State *L, const char *s);
void lua_pushvalue(lua_State *L, int idx);
void *lua_newuserdata(lua_State *L, size_t sz);
int lua_setmetatable(lua_State *L, int objindex);
void lua_setfield(lua_State *L, int idx, const char *k);
#define lua_pop(L, n) lua_settop(L, -(n) - 1)
#ifdef __cplusplus
}
#endif
#endif
