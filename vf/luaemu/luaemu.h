#ifndef VF_LUAEMU_H
#define VF_LUAEMU_H
#include "lua.h"
#ifdef __cplusplus
extern "C" {
#endif
lua_State *vfl_newstate(void);
void vfl_capture_module(lua_State *L);
void vfl_settop0(lua_State *L);
int vfl_call(lua_State *L, const char *name);        /* n results, -1 Lua error, -2 not found */
int vfl_callmethod(lua_State *L, const char *name);  /* stack[1] = object */
void vfl_save(lua_State *L, int idx, int slot);
void vfl_pushsaved(lua_State *L, int slot);
int vfl_result_index(lua_State *L, int nres, int k);
void vfl_show(lua_State *L, int idx, int slot, int kind);
#ifdef __cplusplus
}
#endif
#endif
