// Reference Lua C-API emulator: tagged value stack, named metatables, luaL_Reg capture.
#include <cstdarg>
#include <cstdio>
#include <cstdlib>
#include <cstring>
#include <map>
#include <string>
#include <vector>
#include "lua.h"
#include "lauxlib.h"
#include "luaemu.h"

struct Table;
struct Value {
    int tag;
    int b;
    bool isint;
    long long i;
    double n;
    std::string s;
    void *ud;
    Table *meta;
    Table *t;
    lua_CFunction f;
    Value() : tag(LUA_TNIL), b(0), isint(false), i(0), n(0), ud(NULL), meta(NULL), t(NULL), f(NULL) {}
};
struct Table { std::map<std::string, Value> fields; };
struct lua_State {
    std::vector<Value> stack;
    std::map<std::string, Table *> registry;
    Table *module;
    std::vector<void *> blocks;
    lua_State() : module(NULL) {}
};
struct LuaError { std::string msg; };

static Value *at(lua_State *L, int idx)
{
    int n = (int) L->stack.size();
    if (idx > 0) return idx <= n ? &L->stack[idx - 1] : NULL;
    if (idx < 0) return -idx <= n ? &L->stack[n + idx] : NULL;
    return NULL;
}

extern "C" {
int lua_gettop(lua_State *L) { return (int) L->stack.size(); }
void lua_settop(lua_State *L, int idx)
{
    int n = (int) L->stack.size();
    int want = idx >= 0 ? idx : n + idx + 1;
    if (want < 0) want = 0;
    L->stack.resize(want);
}
int lua_type(lua_State *L, int idx) { Value *v = at(L, idx); return v ? v->tag : LUA_TNONE; }
lua_Integer lua_tointegerx(lua_State *L, int idx, int *isnum)
{
    Value *v = at(L, idx);
    if (isnum) *isnum = 0;
    if (!v) return 0;
    if (v->tag == LUA_TNUMBER) {
        if (v->isint) { if (isnum) *isnum = 1; return v->i; }
        long long k = (long long) v->n;
        if ((double) k == v->n) { if (isnum) *isnum = 1; return k; }
        return 0;
    }
    if (v->tag == LUA_TSTRING) {
        char *end; long long k = strtoll(v->s.c_str(), &end, 10);
        if (*end == 0 && !v->s.empty()) { if (isnum) *isnum = 1; return k; }
    }
    return 0;
}
lua_Number lua_tonumberx(lua_State *L, int idx, int *isnum)
{
    Value *v = at(L, idx);
    if (isnum) *isnum = 0;
    if (!v) return 0;
    if (v->tag == LUA_TNUMBER) { if (isnum) *isnum = 1; return v->isint ? (double) v->i : v->n; }
    if (v->tag == LUA_TSTRING) {
        char *end; double d = strtod(v->s.c_str(), &end);
        if (*end == 0 && !v->s.empty()) { if (isnum) *isnum = 1; return d; }
    }
    return 0;
}
int lua_toboolean(lua_State *L, int idx)
{
    Value *v = at(L, idx);
    if (!v || v->tag == LUA_TNIL) return 0;
    if (v->tag == LUA_TBOOLEAN) return v->b;
    return 1;
}
const char *lua_tolstring(lua_State *L, int idx, size_t *len)
{
    Value *v = at(L, idx);
    if (!v) return NULL;
    if (v->tag == LUA_TNUMBER) {       // Lua converts the number in place
        char buf[64];
        if (v->isint) snprintf(buf, sizeof buf, "%lld", v->i); else snprintf(buf, sizeof buf, "%.14g", v->n);
        v->s = buf; v->tag = LUA_TSTRING;
    }
    if (v->tag != LUA_TSTRING) return NULL;
    if (len) *len = v->s.size();
    return v->s.c_str();
}
void lua_pushnil(lua_State *L) { L->stack.push_back(Value()); }
void lua_pushinteger(lua_State *L, lua_Integer n) { Value v; v.tag = LUA_TNUMBER; v.isint = true; v.i = n; L->stack.push_back(v); }
void lua_pushnumber(lua_State *L, lua_Number n) { Value v; v.tag = LUA_TNUMBER; v.isint = false; v.n = n; L->stack.push_back(v); }
void lua_pushboolean(lua_State *L, int b) { Value v; v.tag = LUA_TBOOLEAN; v.b = b ? 1 : 0; L->stack.push_back(v); }
const char *lua_pushstring(lua_State *L, const char *s)
{
    Value v;
    if (s == NULL) { L->stack.push_back(v); return NULL; }
    v.tag = LUA_TSTRING; v.s = s; L->stack.push_back(v);
    return L->stack.back().s.c_str();
}
void lua_pushvalue(lua_State *L, int idx) { Value *v = at(L, idx); Value c = v ? *v : Value(); L->stack.push_back(c); }
void *lua_newuserdata(lua_State *L, size_t sz)
{
    Value v; v.tag = LUA_TUSERDATA; v.ud = calloc(1, sz ? sz : 1); L->blocks.push_back(v.ud); L->stack.push_back(v);
    return v.ud;
}
int lua_setmetatable(lua_State *L, int objindex)
{
    Value top = L->stack.back();
    // the object index is relative to the stack BEFORE the table is popped
    Value *obj = at(L, objindex);
    if (obj && top.tag == LUA_TTABLE) obj->meta = top.t;
    L->stack.pop_back();
    return 1;
}
void lua_setfield(lua_State *L, int idx, const char *k)
{
    Value val = L->stack.back();
    Value *t = at(L, idx);
    if (t && t->tag == LUA_TTABLE) t->t->fields[k] = val;
    L->stack.pop_back();
}
int luaL_error(lua_State *L, const char *fmt, ...)
{
    (void) L;
    char buf[256]; va_list ap; va_start(ap, fmt); vsnprintf(buf, sizeof buf, fmt, ap); va_end(ap);
    LuaError e; e.msg = buf; throw e;
}
void *luaL_checkudata(lua_State *L, int ud, const char *tname)
{
    Value *v = at(L, ud);
    std::map<std::string, Table *>::iterator it = L->registry.find(tname);
    if (!v || v->tag != LUA_TUSERDATA || it == L->registry.end() || v->meta != it->second)
        luaL_error(L, "bad argument #%d (%s expected)", ud, tname);
    return v->ud;
}
int luaL_newmetatable(lua_State *L, const char *tname)
{
    Value v; v.tag = LUA_TTABLE;
    if (L->registry.count(tname)) { v.t = L->registry[tname]; L->stack.push_back(v); return 0; }
    v.t = new Table(); L->registry[tname] = v.t; L->stack.push_back(v);
    return 1;
}
int luaL_getmetatable(lua_State *L, const char *tname)
{
    Value v;
    if (L->registry.count(tname)) { v.tag = LUA_TTABLE; v.t = L->registry[tname]; }
    L->stack.push_back(v);
    return v.tag;
}
void luaL_setfuncs(lua_State *L, const luaL_Reg *l, int nup)
{
    (void) nup;
    Value *t = at(L, -1);
    if (!t || t->tag != LUA_TTABLE) luaL_error(L, "luaL_setfuncs: no table");
    for (; l->name != NULL; l++) {
        if (t->t->fields.count(l->name)) { printf("N duplicate-key %s\n", l->name); fflush(stdout); }
        Value f; f.tag = LUA_TFUNCTION; f.f = l->func; t->t->fields[l->name] = f;
    }
}
void vfl_newlibtable(lua_State *L) { Value v; v.tag = LUA_TTABLE; v.t = new Table(); L->stack.push_back(v); }
void luaL_register(lua_State *L, const char *libname, const luaL_Reg *l)
{
    if (libname != NULL) vfl_newlibtable(L);
    luaL_setfuncs(L, l, 0);
}

// ---------------------------------------------------------------- driver side helpers
lua_State *vfl_newstate(void) { return new lua_State(); }
void vfl_capture_module(lua_State *L)
{
    Value *v = at(L, -1);
    L->module = (v && v->tag == LUA_TTABLE) ? v->t : NULL;
    L->stack.clear();
}
void vfl_settop0(lua_State *L) { L->stack.clear(); }
static int call_value(lua_State *L, Value fn)
{
    if (fn.tag != LUA_TFUNCTION) return -2;
    try {
        int base = 0;
        int n = fn.f(L);
        (void) base;
        return n;
    } catch (LuaError &e) {
        return -1;
    }
}
int vfl_call(lua_State *L, const char *name)
{
    if (!L->module || !L->module->fields.count(name)) return -2;
    return call_value(L, L->module->fields[name]);
}
int vfl_callmethod(lua_State *L, const char *name)
{
    Value *self = at(L, 1);
    if (!self || self->tag != LUA_TUSERDATA || !self->meta) return -2;
    // __index of the metatable is the metatable itself (documented in the generated luaopen)
    Table *t = self->meta;
    if (t->fields.count("__index") && t->fields["__index"].tag == LUA_TTABLE) t = t->fields["__index"].t;
    if (!t->fields.count(name)) return -2;
    return call_value(L, t->fields[name]);
}
void vfl_save(lua_State *L, int idx, int slot)
{
    static std::map<lua_State *, std::map<int, Value> > saved;
    (void) saved;
    Value *v = at(L, idx);
    extern std::map<int, Value> *vfl_slots(lua_State *);
    (*vfl_slots(L))[slot] = v ? *v : Value();
}
void vfl_pushsaved(lua_State *L, int slot)
{
    extern std::map<int, Value> *vfl_slots(lua_State *);
    L->stack.push_back((*vfl_slots(L))[slot]);
}
int vfl_result_index(lua_State *L, int nres, int k) { return (int) L->stack.size() - nres + k + 1; }
void vfl_show(lua_State *L, int idx, int slot, int kind)
{
    Value *v = at(L, idx);
    if (slot < 0) fputs("O rv ", stdout); else printf("O %d ", slot);
    if (!v) { puts("MISSING"); fflush(stdout); return; }
    switch (kind) {
    case 'i': if (v->tag == LUA_TNUMBER && v->isint) printf("i %lld\n", v->i); else printf("WRONGTYPE %d\n", v->tag); break;
    case 'd': if (v->tag == LUA_TNUMBER && !v->isint) { unsigned long long u; memcpy(&u, &v->n, 8); printf("d %016llx\n", u); } else printf("WRONGTYPE %d\n", v->tag); break;
    case 'b': if (v->tag == LUA_TBOOLEAN) printf("b %d\n", v->b); else printf("WRONGTYPE %d\n", v->tag); break;
    case 's': if (v->tag == LUA_TSTRING) { printf("s %d:", (int) v->s.size()); for (size_t j = 0; j < v->s.size(); j++) putchar(v->s[j] == ' ' ? '_' : v->s[j]); putchar('\n'); } else printf("WRONGTYPE %d\n", v->tag); break;
    case 'c': if (v->tag == LUA_TSTRING && v->s.size() == 1) printf("c %d\n", (int) (unsigned char) v->s[0]); else printf("WRONGTYPE %d\n", v->tag); break;
    default: puts("?");
    }
    fflush(stdout);
}
}  // extern "C"

std::map<int, Value> *vfl_slots(lua_State *L)
{
    static std::map<lua_State *, std::map<int, Value> > saved;
    return &saved[L];
}
