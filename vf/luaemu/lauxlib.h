#ifndef VF_LAUXLIB_H
#define VF_LAUXLIB_H
#include "lua.h"
#ifdef __cplusplus
extern "C" {
#endif
typedef struct luaL_Reg { const char *name; lua_CFunction func; } luaL_Reg;
int luaL_error(lua_State *L, const char *fmt, ...);
void *luaL_checkudata(lua_State *L, int ud, const char *tname);
int luaL_newmetatable(lua_State *L, const char *tname);
int luaL_getmetatable(lua_State *L, const char *tname);
void luaL_setfuncs(lua_State *L, const luaL_Reg *l, int nup);
void vfl_newlibtable(lua_State *L);
#define luaL_newlib(L, l) (vfl_newlibtable(L), luaL_setfuncs(L, l, 0))
void luaL_register(lua_State *L, const char *libname, const luaL_Reg *l);
#ifdef __cplusplus
}
#endif
#endif
