"""Two independent views of the C/Fortran boundary (C04).

C view  : clang -ast-dump=json of generated headers / sources (and the user's
          header for a C library): every function with its parameter classes.
F view  : the bind(C) interface bodies and bind(C) derived types read from the
          generated modules by a small Fortran reader, mapped to C parameter
          classes by the Fortran 2018 interoperability rules.
A parameter class is a tuple:
   ("val", kind, size)            scalar passed by value   kind in int/real/bool/char/complex
   ("ptr", kind, size)            pointer to scalar(s)
   ("charptr",) ("voidptr",) ("ptrptr",) ("funcptr",) ("cfi",)
   ("structval", name) ("structptr", name)
"""
import json
import os
import re
import subprocess

from . import lex

SIZES = {"char": ("char", 1), "signed char": ("int", 1), "unsigned char": ("int", 1), "short": ("int", 2),
         "unsigned short": ("int", 2), "int": ("int", 4), "unsigned int": ("int", 4), "long": ("int", 8),
         "unsigned long": ("int", 8), "long long": ("int", 8), "unsigned long long": ("int", 8),
         "float": ("real", 4), "double": ("real", 8), "long double": ("real", 16), "_Bool": ("bool", 1), "bool": ("bool", 1),
         "_Complex float": ("complex", 8), "_Complex double": ("complex", 16), "float _Complex": ("complex", 8),
         "double _Complex": ("complex", 16), "void": ("void", 0)}

F_KINDS = {"c_int": 4, "c_long": 8, "c_short": 2, "c_long_long": 8, "c_size_t": 8, "c_int8_t": 1, "c_int16_t": 2,
           "c_int32_t": 4, "c_int64_t": 8, "c_float": 4, "c_double": 8, "c_bool": 1, "c_char": 1, "c_signed_char": 1,
           "c_float_complex": 8, "c_double_complex": 16, "c_intptr_t": 8, "c_ptrdiff_t": 8, "c_long_double": 16}


class IfaceError(Exception):
    pass


# ---------------------------------------------------------------------------
# C view

def clang_decls(path, lang, incdirs, filt=None, defines=()):
    cmd = ["clang", "-x", "c" if lang == "c" else "c++", "-std=c99" if lang == "c" else "-std=c++11", "-fsyntax-only", "-w",
           "-Xclang", "-ast-dump=json"]
    if filt:
        cmd += ["-Xclang", "-ast-dump-filter=" + filt]
    for d in incdirs:
        cmd += ["-I", d]
    # gfortran's CFI header (for F_CFI wrappers)
    cfi = subprocess.run(["gcc", "-print-file-name=include"], capture_output=True, text=True).stdout.strip()
    if cfi and os.path.exists(os.path.join(cfi, "ISO_Fortran_binding.h")):
        cmd += ["-idirafter", cfi]
    for d in defines:
        cmd.append("-D" + d)
    cmd.append(path)
    cp = subprocess.run(cmd, capture_output=True, text=True, timeout=300)
    if cp.returncode != 0:
        raise IfaceError("clang cannot parse %s: %s" % (path, cp.stderr[-600:]))
    text = cp.stdout
    dec = json.JSONDecoder()
    pos = 0
    out = []
    while True:
        i = text.find("{", pos)
        if i < 0:
            break
        # skip 'Dumping xxx:' lines
        try:
            obj, end = dec.raw_decode(text, i)
        except ValueError:
            pos = i + 1
            continue
        out.append(obj)
        pos = end
    return out


def _qt(t):
    return t.get("desugaredQualType") or t.get("qualType")


def classify_c(qt, structs):
    """C type text -> parameter class."""
    q = qt.strip()
    q = re.sub(r"\b(const|volatile|restrict|__restrict)\b", " ", q)
    q = re.sub(r"\s+", " ", q).strip()
    if "(*" in q or "(^" in q:
        return ("funcptr",)
    nptr = q.count("*") + q.count("&")
    base = q.replace("*", " ").replace("&", " ").strip()
    base = re.sub(r"\s+", " ", base)
    if base.startswith("enum "):
        kind, size = "int", 4
    elif base.startswith("struct ") or base.startswith("class ") or base in structs or base.startswith("std::") or "::" in base:
        nm = base.replace("struct ", "").replace("class ", "")
        if nm in ("CFI_cdesc_t",) or "CFI_cdesc" in nm:
            return ("cfi",) if nptr else ("structval", nm)
        if nptr == 0:
            return ("structval", nm)
        if nptr == 1:
            return ("structptr", nm)
        return ("ptrptr",)
    elif base in SIZES:
        kind, size = SIZES[base]
    else:
        # typedef'd scalar clang did not desugar (e.g. int32_t inside a struct dump)
        m = {"int8_t": ("int", 1), "int16_t": ("int", 2), "int32_t": ("int", 4), "int64_t": ("int", 8), "uint8_t": ("int", 1),
             "uint16_t": ("int", 2), "uint32_t": ("int", 4), "uint64_t": ("int", 8), "size_t": ("int", 8)}.get(base)
        if m is None:
            # a user-defined type name (typedef of an anonymous struct, class): clang already
            # desugars typedefs of scalars, so what is left is a record type
            if re.match(r"^[A-Za-z_]\w*$", base):
                if nptr == 0:
                    return ("structval", base)
                if nptr == 1:
                    return ("structptr", base)
                return ("ptrptr",)
            return ("unknown", q)
        kind, size = m
    if nptr == 0:
        return ("val", kind, size)
    if nptr == 1:
        if kind == "void":
            return ("voidptr",)
        if kind == "char":
            return ("charptr",)
        return ("ptr", kind, size)
    return ("ptrptr",)


def c_functions(decls):
    """{name: dict(ret, params, defined)} from clang declarations (functions with C linkage or in C)."""
    funcs = {}
    structs = {}
    typedefs = {}

    def walk(node, in_extern_c):
        k = node.get("kind")
        if k == "LinkageSpecDecl":
            for ch in node.get("inner", []):
                walk(ch, node.get("language") == "C" or in_extern_c)
            return
        if k == "RecordDecl" and node.get("completeDefinition") and node.get("name"):
            structs[node["name"]] = [(f["name"], _qt(f["type"])) for f in node.get("inner", []) if f.get("kind") == "FieldDecl"]
        if k == "CXXRecordDecl" and node.get("completeDefinition") and node.get("name") and node.get("tagUsed") == "struct":
            structs[node["name"]] = [(f["name"], _qt(f["type"])) for f in node.get("inner", []) if f.get("kind") == "FieldDecl"]
        if k == "TypedefDecl" and node.get("name"):
            typedefs[node["name"]] = _qt(node["type"])
        if k == "FunctionDecl" and node.get("name"):
            params = [(p.get("name", ""), _qt(p["type"])) for p in node.get("inner", []) if p.get("kind") == "ParmVarDecl"]
            defined = any(ch.get("kind") == "CompoundStmt" for ch in node.get("inner", []))
            ft = _qt(node["type"])
            ret = ft.split("(")[0].strip()
            prev = funcs.get(node["name"])
            rec = dict(ret=ret, params=params, defined=defined or (prev or {}).get("defined", False))
            funcs[node["name"]] = rec
        if k in ("TranslationUnitDecl", "NamespaceDecl"):
            for ch in node.get("inner", []):
                walk(ch, in_extern_c)
    for d in decls:
        walk(d, False)
    return funcs, structs, typedefs


# ---------------------------------------------------------------------------
# Fortran view

def f_interfaces(text):
    """-> (procs, types): procs = {binding label: dict(name, kind function|subroutine, args[names], decls{name: stmt tokens}, result)}
    types = {name(lower): [(field, decl tokens)]} for bind(C) derived types."""
    procs = {}
    types = {}
    stmts = lex.f_statements(text)
    i = 0
    depth = 0
    abstract = False
    ppdepth = 0
    while i < len(stmts):
        st = stmts[i]
        if st[0] == "<pp>":
            d = st[1] if len(st) > 1 else ""
            if d.startswith("if"):
                ppdepth += 1
            elif d.startswith("endif"):
                ppdepth -= 1
            i += 1
            continue
        if st[0] == "interface" or (st[0] == "abstract" and len(st) > 1 and st[1] == "interface"):
            depth += 1
            abstract = st[0] == "abstract"     # abstract interfaces describe callbacks: no C symbol is bound
        elif st[0] == "end" and len(st) > 1 and st[1] == "interface":
            depth -= 1
            abstract = False
        elif st[0] == "type" and "bind" in st and "::" in st:
            name = st[st.index("::") + 1]
            fields = []
            i += 1
            while not (stmts[i][0] == "end" and stmts[i][1] == "type"):
                if "::" in stmts[i]:
                    j = stmts[i].index("::")
                    decl = stmts[i][:j]
                    names = split_names(stmts[i][j + 1:])
                    for nm, dims in names:
                        fields.append((nm, decl, dims))
                i += 1
            types[name] = fields
        elif depth > 0:
            kw = None
            for j, t in enumerate(st[:-1]):
                if t in ("function", "subroutine") and (j == 0 or st[j - 1] != "end"):
                    kw = j
                    break
            if kw is not None and (("bind" in st and not abstract) or abstract):
                pname = st[kw + 1]
                is_abstract = abstract
                # argument names
                args = []
                if kw + 2 < len(st) and st[kw + 2] == "(":
                    k = kw + 3
                    while st[k] != ")":
                        if st[k] != ",":
                            args.append(st[k])
                        k += 1
                # binding label
                label = None
                b = st.index("bind") if "bind" in st else len(st)
                for k in range(b, len(st)):
                    if st[k] == "name" and st[k + 1] == "=":
                        label = st[k + 2].strip("\"'")
                        break
                if label is None:
                    label = pname
                if is_abstract:
                    # abstract interfaces describe the callbacks of procedure dummies: no C symbol is bound;
                    # kept under a key no binding label can have
                    label = "@abstract:" + pname.lower()
                result = None
                if "result" in st:
                    r = st.index("result")
                    result = st[r + 2]
                elif st[kw] == "function":
                    result = pname
                decls = {}
                i += 1
                while not (stmts[i][0] == "end" and len(stmts[i]) > 1 and stmts[i][1] in ("function", "subroutine")):
                    s2 = stmts[i]
                    if s2[0] == "<pp>":
                        i += 1
                        continue
                    if "::" in s2:
                        j = s2.index("::")
                        for nm, dims in split_names(s2[j + 1:]):
                            decls[nm] = (s2[:j], dims)
                    elif s2[0] in ("integer", "real", "logical", "character", "type", "complex", "procedure", "class") and "::" not in s2:
                        # 'type(C_PTR) SHT_rv' without ::
                        depthp = 0
                        k = 0
                        if len(s2) > 1 and s2[1] == "(":
                            k = 1
                            while True:
                                if s2[k] == "(":
                                    depthp += 1
                                elif s2[k] == ")":
                                    depthp -= 1
                                    if depthp == 0:
                                        break
                                k += 1
                            k += 1
                        else:
                            k = 1
                        for nm, dims in split_names(s2[k:]):
                            decls[nm] = (s2[:k], dims)
                    i += 1
                procs[label] = dict(name=pname, kind=st[kw], args=args, decls=decls, result=result, conditional=ppdepth > 0,
                                    abstract=is_abstract)
        i += 1
    return procs, types


def split_names(toks):
    """'a(*), b' -> [('a', ['*']), ('b', None)]  (initialisers '= x' dropped)"""
    res = []
    i = 0
    while i < len(toks):
        nm = toks[i]
        i += 1
        dims = None
        if i < len(toks) and toks[i] == "(":
            d = 1
            j = i + 1
            dims = []
            while d > 0:
                if toks[j] == "(":
                    d += 1
                elif toks[j] == ")":
                    d -= 1
                    if d == 0:
                        break
                dims.append(toks[j])
                j += 1
            i = j + 1
        if i < len(toks) and toks[i] == "=":
            while i < len(toks) and toks[i] != ",":
                i += 1
        if i < len(toks) and toks[i] == ",":
            i += 1
        res.append((nm, dims))
    return res


def classify_f(decl, dims, is_result=False):
    """Fortran declaration tokens (before ::) + dimension -> parameter class (interoperability rules)."""
    t = decl[0]
    attrs = set()
    # split type-spec from attribute list
    k = 1
    spec = []
    if len(decl) > 1 and decl[1] == "(":
        d = 0
        while True:
            if decl[k] == "(":
                d += 1
            elif decl[k] == ")":
                d -= 1
                if d == 0:
                    break
            spec.append(decl[k])
            k += 1
        spec = spec[1:]
        k += 1
    rest = decl[k:]
    for a in rest:
        if a not in (",", "(", ")"):
            attrs.add(a)
    byval = "value" in attrs
    arr = dims is not None or "dimension" in attrs
    deferred = dims is not None and (":" in "".join(dims) or ".." in "".join(dims))
    alloc = "allocatable" in attrs or "pointer" in attrs
    if t == "procedure":
        return ("funcptr",)
    if t == "type":
        nm = spec[0] if spec else ""
        if nm == "*":
            return ("cfi",) if deferred else ("voidptr",)
        if nm == "c_ptr":
            if byval or is_result:
                return ("voidptr",)
            return ("ptrptr",)
        if nm == "c_funptr":
            return ("funcptr",)
        if deferred or alloc:
            return ("cfi",)
        if byval or is_result:
            return ("structval", nm)
        return ("structptr", nm)
    if t == "character":
        txt = "".join(spec)
        if "len=*" in txt or "len=:" in txt or alloc or deferred:
            return ("cfi",)
        if byval or is_result:
            return ("val", "char", 1)
        return ("charptr",)
    kindname = None
    for j, s in enumerate(spec):
        if s in F_KINDS:
            kindname = s
    kindmap = {"integer": "int", "real": "real", "logical": "bool", "complex": "complex"}
    if t not in kindmap:
        return ("unknown", " ".join(decl))
    if kindname is None:
        size = {"integer": 4, "real": 4, "logical": 4, "complex": 8}[t]
    else:
        size = F_KINDS[kindname]
    if deferred or alloc:
        return ("cfi",)
    if is_result and arr:
        # Fortran 2018 18.3.7: the result of an interoperable function is a scalar
        return ("unknown", "array-valued function result: " + " ".join(decl))
    if (byval or is_result) and not arr:
        return ("val", kindmap[t], size)
    return ("ptr", kindmap[t], size)


def funcptr_params(qt):
    """'int (*)(void *, int)' -> (return type text, [parameter type texts]) or None."""
    m = re.match(r"^(.*?)\(\s*\*[^)]*\)\s*\((.*)\)\s*$", qt.strip())
    if not m:
        return None
    ret, inner = m.group(1).strip(), m.group(2).strip()
    if inner in ("", "void"):
        return ret, []
    parts, depth, cur = [], 0, ""
    for ch in inner:
        if ch in "(<[":
            depth += 1
        elif ch in ")>]":
            depth -= 1
        if ch == "," and depth == 0:
            parts.append(cur.strip())
            cur = ""
        else:
            cur += ch
    parts.append(cur.strip())
    return ret, parts


def compatible(cf, cc):
    """Is Fortran class cf interoperable with C class cc?  -> (bool, pair-to-check or None)"""
    if cf == cc:
        return True, None
    if cf[0] == "unknown" or cc[0] == "unknown":
        return False, None
    if cf[0] == "val" and cc[0] == "val":
        # signedness is not expressible in Fortran (documented); char <-> 1-byte int allowed
        same_kind = cf[1] == cc[1] or {cf[1], cc[1]} == {"char", "int"}
        return same_kind and cf[2] == cc[2], None
    if cf[0] == "ptr" and cc[0] == "ptr":
        same_kind = cf[1] == cc[1] or {cf[1], cc[1]} == {"char", "int"}
        return same_kind and cf[2] == cc[2], None
    if cf[0] == "ptr" and cc[0] == "charptr":
        return cf[2] == 1, None
    if cf[0] == "charptr" and cc[0] == "ptr":
        return cc[2] == 1, None
    if cf[0] == "voidptr":
        return cc[0] in ("ptr", "charptr", "voidptr", "structptr", "ptrptr", "funcptr"), None
    if cf[0] == "ptrptr":
        return cc[0] in ("ptrptr",), None
    if cf[0] == "structptr" and cc[0] == "structptr":
        return True, (cf[1], cc[1])           # layouts are compared separately
    if cf[0] == "structval" and cc[0] == "structval":
        return True, (cf[1], cc[1])
    if cf[0] == "structptr" and cc[0] == "voidptr":
        return True, None
    if cf[0] == "ptr" and cc[0] == "voidptr":
        return True, None
    if cf[0] == "charptr" and cc[0] == "voidptr":
        return True, None
    if cf[0] == "ptr" and cc[0] == "ptrptr":
        return False, None
    if cf[0] == "cfi" and cc[0] == "cfi":
        return True, None
    if cf[0] == "funcptr" and cc[0] == "funcptr":
        return True, None
    return False, None
