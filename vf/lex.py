"""Independent comment-stripping tokenisers for C/C++ and free-form Fortran,
plus a '#'-comment stripper for setup.py / YAML outputs.

They share no code with Shroud.  Token streams are lists of strings.
"""
import re

_C_TOKEN = re.compile(r"""
    (?P<ws>[ \t\f\v\r]+)
  | (?P<nl>\n)
  | (?P<lcom>//[^\n]*)
  | (?P<bcom>/\*.*?\*/)
  | (?P<str>(?:u8|u|U|L)?"(?:\\.|[^"\\\n])*")
  | (?P<chr>(?:u8|u|U|L)?'(?:\\.|[^'\\\n])*')
  | (?P<num>\.?[0-9](?:[eEpP][+-]|[0-9a-zA-Z_.'])*)
  | (?P<id>[A-Za-z_][A-Za-z0-9_]*)
  | (?P<op>\.\.\.|<<=|>>=|->\*|::|\+\+|--|->|<<|>>|<=|>=|==|!=|&&|\|\||\+=|-=|\*=|/=|%=|&=|\|=|\^=|\#\#|.)
""", re.X | re.S)


class LexError(Exception):
    pass


def c_tokens(text, keep_pp_lines=True):
    """Tokens of C/C++ source with comments removed.  A preprocessor line is
    returned as tokens preceded by the marker '<pp>' and followed by '<eol>'
    (line breaks are significant there)."""
    # line splices
    text = text.replace("\\\n", " ")
    out = []
    pos = 0
    n = len(text)
    at_line_start = True
    in_pp = False
    while pos < n:
        m = _C_TOKEN.match(text, pos)
        if not m:
            raise LexError("cannot tokenise at %d: %r" % (pos, text[pos:pos + 20]))
        kind = m.lastgroup
        tok = m.group()
        pos = m.end()
        if kind == "ws":
            continue
        if kind == "nl":
            if in_pp:
                out.append("<eol>")
                in_pp = False
            at_line_start = True
            continue
        if kind == "lcom":
            continue
        if kind == "bcom":
            continue
        if at_line_start and tok == "#":
            in_pp = True
            out.append("<pp>")
            at_line_start = False
            continue
        at_line_start = False
        out.append(tok)
    if in_pp:
        out.append("<eol>")
    return out


def c_comments(text):
    """List of comment texts (for checks that look inside comments)."""
    res = []
    for m in _C_TOKEN.finditer(text.replace("\\\n", " ")):
        if m.lastgroup in ("lcom", "bcom"):
            res.append(m.group())
    return res


def _f_strip_comment(line):
    """Remove a trailing ! comment that is outside character literals.
    Returns (code, had_open_quote) - the quote state is needed only for
    continued character literals, which Shroud never emits; we treat an
    unterminated literal as a lexing error."""
    out = []
    q = None
    i = 0
    while i < len(line):
        ch = line[i]
        if q:
            out.append(ch)
            if ch == q:
                if i + 1 < len(line) and line[i + 1] == q:
                    out.append(q)
                    i += 1
                else:
                    q = None
        else:
            if ch in "'\"":
                q = ch
                out.append(ch)
            elif ch == "!":
                break
            else:
                out.append(ch)
        i += 1
    return "".join(out), q


def f_logical_lines(text):
    """Join free-form continuation lines; drop comments and blank lines.
    Preprocessor lines (# in column one) are kept as they are.
    Returns list of (first_physical_lineno, text)."""
    res = []
    cur = None
    cur_no = None
    for no, raw in enumerate(text.split("\n"), 1):
        if raw.startswith("#"):
            if cur is not None:
                raise LexError("preprocessor line inside continuation at %d" % no)
            res.append((no, raw.rstrip()))
            continue
        code, q = _f_strip_comment(raw)
        if q:
            raise LexError("unterminated character literal at line %d" % no)
        code = code.rstrip()
        if cur is not None:
            s = code.lstrip()
            if not s:
                # comment or blank line between continuation lines: allowed
                continue
            if s.startswith("&"):
                s = s[1:]
            else:
                s = " " + s
            code = s
        else:
            if not code.strip():
                continue
            cur_no = no
            cur = ""
        if code.endswith("&"):
            cur += code[:-1]
        else:
            cur += code
            res.append((cur_no, cur))
            cur = None
    if cur is not None:
        raise LexError("continuation at end of file")
    return res


_F_TOKEN = re.compile(r"""
    (?P<ws>[ \t]+)
  | (?P<str>'(?:''|[^'])*'|"(?:""|[^"])*")
  | (?P<num>(?:[0-9]+\.?[0-9]*|\.[0-9]+)(?:[eEdD][+-]?[0-9]+)?(?:_[A-Za-z0-9_]+)?)
  | (?P<id>[A-Za-z][A-Za-z0-9_]*)
  | (?P<dotop>\.[A-Za-z]+\.)
  | (?P<op>::|=>|==|/=|<=|>=|\*\*|//|\(/|/\)|.)
""", re.X)


def f_statements(text):
    """List of statements, each a list of tokens (identifiers lower-cased),
    comments removed, continuation lines joined."""
    stmts = []
    for no, line in f_logical_lines(text):
        if line.startswith("#"):
            stmts.append(["<pp>"] + line[1:].split())
            continue
        # several statements per line separated by ; (outside strings)
        toks = []
        pos = 0
        while pos < len(line):
            m = _F_TOKEN.match(line, pos)
            if not m:
                raise LexError("cannot tokenise line %d at %d: %r" % (no, pos, line))
            pos = m.end()
            kind = m.lastgroup
            tok = m.group()
            if kind == "ws":
                continue
            if kind in ("id", "dotop", "num"):
                tok = tok.lower()
            if tok == ";" and kind == "op":
                if toks:
                    stmts.append(toks)
                toks = []
                continue
            toks.append(tok)
        if toks:
            stmts.append(toks)
    return stmts


def f_tokens(text):
    out = []
    for st in f_statements(text):
        out.extend(st)
        out.append("<eos>")
    return out


def hash_comment_strip(text):
    """Lines of a '#'-commented file (setup.py, YAML) with comments and blank
    lines removed.  A # inside quotes is kept."""
    res = []
    for raw in text.split("\n"):
        out = []
        q = None
        for ch in raw:
            if q:
                out.append(ch)
                if ch == q:
                    q = None
            elif ch in "'\"":
                q = ch
                out.append(ch)
            elif ch == "#":
                break
            else:
                out.append(ch)
        s = "".join(out).rstrip()
        if s.strip():
            res.append(s)
    return res


def file_kind(relpath):
    """Classify a generated file by its suffix."""
    p = relpath.lower()
    if p.endswith((".c", ".h", ".cpp", ".hpp", ".cxx", ".hxx", ".cc", ".hh")):
        return "c"
    if p.endswith((".f", ".f90", ".F", ".F90")) or relpath.endswith((".F", ".F90")):
        return "f"
    if p.endswith(".py") or p.endswith(".yaml"):
        return "hash"
    if p.endswith(".json"):
        return "json"
    if p.endswith(".log"):
        return "log"
    return "other"


def code_tokens(relpath, data):
    """Comment-free token stream of a generated file, by kind."""
    if isinstance(data, bytes):
        data = data.decode("utf-8", "replace")
    k = file_kind(relpath)
    if k == "c":
        return c_tokens(data)
    if k == "f":
        return f_tokens(data)
    if k == "hash":
        return hash_comment_strip(data)
    return None
