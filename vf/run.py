"""Command line: python -m vf.run <ID> [--tier quick|thorough] [--replay PATH]"""
import argparse
import importlib
import json
import os
import sys
import traceback

from . import core


def main():
    ap = argparse.ArgumentParser()
    ap.add_argument("pid")
    ap.add_argument("--tier", default=os.environ.get("VERIF_TIER", "quick"),
                    choices=["quick", "thorough"])
    ap.add_argument("--replay", default=None)
    args = ap.parse_args()
    pid = args.pid.upper()
    try:
        mod = importlib.import_module("vf.props." + pid.lower())
    except ImportError:
        traceback.print_exc()
        print("HARNESS-ERROR no check for " + pid)
        return 2
    ctx = core.Ctx(pid, args.tier, mod.LEVEL, replaying=bool(args.replay))
    try:
        if args.replay:
            with open(args.replay) as fp:
                rec = json.load(fp)
            rec["_path"] = args.replay
            mod.replay(ctx, rec)
            rc = ctx.finish()
            print("replay %s: %s" % (args.replay, "FAILS (violation reproduced)" if rc else "passes"))
            return rc
        mod.run(ctx)
        # replay tier: saved minimal inputs of earlier findings (regress/<ID>/*.json)
        rdir = os.path.join(core.VERIF, "regress", pid)
        if os.path.isdir(rdir):
            for fn in sorted(os.listdir(rdir)):
                if fn.endswith(".json"):
                    with open(os.path.join(rdir, fn)) as fp:
                        rec = json.load(fp)
                    before = len(ctx.violations)
                    mod.replay(ctx, rec)
                    ctx.case(label="regress-replay")
                    if len(ctx.violations) > before:
                        print("  (saved regression input %s fails again)" % fn)
        return ctx.finish()
    except core.HarnessError as e:
        print("HARNESS-ERROR %s: %s" % (pid, e))
        return 2
    except Exception:
        traceback.print_exc()
        print("HARNESS-ERROR %s: unexpected exception in harness" % pid)
        return 2


if __name__ == "__main__":
    sys.exit(main())
