"""Core of the verification framework: context, evidence, replay files, known
findings, seeding, sharding.

Every check is a module vf/props/cNN.py exposing

    LEVEL      = "exploration" | "translation_validation" | ...
    def run(ctx)          # explore; report through ctx
    def replay(ctx, case) # re-judge one saved case (no generator involved)

Exit codes: 0 property held on everything explored (KNOWN-FINDING lines may be
printed), 1 at least one VIOLATION line, 2 harness error (never a violation).
"""
from __future__ import annotations

import collections
import hashlib
import json
import os
import shutil
import sys
import tempfile
import time
import traceback

VERIF = os.path.dirname(os.path.dirname(os.path.abspath(__file__)))
REPO = os.environ.get("VERIF_REPO", "/repo")
NCPU = int(os.environ.get("VERIF_NCPU", "16"))


class HarnessError(Exception):
    """Something in the harness (not in Shroud) went wrong: exit 2."""


def seed_value():
    try:
        return int(os.environ.get("VERIF_SEED", "1"))
    except ValueError:
        return 1


def sha(obj):
    if not isinstance(obj, (bytes, str)):
        obj = json.dumps(obj, sort_keys=True, default=repr)
    if isinstance(obj, str):
        obj = obj.encode("utf-8", "surrogateescape")
    return hashlib.sha1(obj).hexdigest()


def scratch_root():
    return os.environ.get("VERIF_SCRATCH") or tempfile.gettempdir()


class Scratch(object):
    """Temporary directory removed on exit (also on failure)."""

    def __init__(self, prefix="vf_"):
        self.prefix = prefix
        self.path = None

    def __enter__(self):
        self.path = tempfile.mkdtemp(prefix=self.prefix, dir=scratch_root())
        return self.path

    def __exit__(self, *exc):
        shutil.rmtree(self.path, ignore_errors=True)
        return False


def load_known():
    path = os.path.join(VERIF, "known_findings.json")
    if not os.path.exists(path):
        return []
    with open(path) as fp:
        return json.load(fp)["findings"]


def jsonable(x):
    """Make x JSON serialisable (bytes -> latin-1 str, sets -> sorted lists)."""
    if isinstance(x, bytes):
        return x.decode("latin-1")
    if isinstance(x, dict):
        return {str(k): jsonable(v) for k, v in x.items()}
    if isinstance(x, (list, tuple)):
        return [jsonable(v) for v in x]
    if isinstance(x, (set, frozenset)):
        return sorted(jsonable(v) for v in x)
    if isinstance(x, (str, int, float, bool)) or x is None:
        return x
    return repr(x)


class Ctx(object):
    def __init__(self, pid, tier, level, replaying=False):
        self.pid = pid
        self.tier = tier
        self.level = level
        self.seed = seed_value()
        self.t0 = time.time()
        self.evaluations = 0
        self.nontrivial = set()
        self.samples = []
        self.max_samples = 8
        self.labels = collections.Counter()
        self.violations = []      # list of (key, replay path)
        self.violation_keys = set()
        self.known_seen = collections.OrderedDict()
        self.excluded_known = collections.Counter()
        self.assumptions = []
        self.extra = {}
        self.rule = ""
        self.budget_exhausted = False
        self.replaying = replaying
        self.known = [k for k in load_known() if k["property"] == pid]
        self.max_violations = 25

    # ---- counting -----------------------------------------------------
    def case(self, sample=None, nontrivial=None, label=None, n=1):
        """Record n evaluated cases.

        nontrivial: hashable key if the case is non-trivial by the check's
        rule (distinct keys are counted); label: histogram bucket."""
        self.evaluations += n
        if nontrivial is not None:
            self.nontrivial.add(sha(nontrivial) if not isinstance(nontrivial, str)
                                else nontrivial)
        if label is not None:
            if isinstance(label, (list, tuple, set)):
                for lb in label:
                    self.labels[str(lb)] += n
            else:
                self.labels[str(label)] += n
        if sample is not None and len(self.samples) < self.max_samples:
            self.samples.append(jsonable(sample))

    def merge(self, other):
        """Merge statistics returned by a shard (dict from export())."""
        self.evaluations += other["evaluations"]
        self.nontrivial.update(other["nontrivial"])
        for s in other["samples"]:
            if len(self.samples) < self.max_samples:
                self.samples.append(s)
        self.labels.update(other["labels"])
        self.excluded_known.update(other["excluded_known"])
        self.budget_exhausted = self.budget_exhausted or other["budget_exhausted"]
        for k, v in other.get("extra", {}).items():
            if isinstance(v, (int, float)) and isinstance(self.extra.get(k, 0), (int, float)):
                self.extra[k] = self.extra.get(k, 0) + v
            else:
                self.extra.setdefault(k, v)
        for f in other["failures"]:
            self.failure(**f)

    # ---- failures -----------------------------------------------------
    def known_match(self, key):
        for k in self.known:
            if k["status"] == "known" and k["key"] == key:
                return k
        return None

    def failure(self, key, case, expected=None, observed=None, note="", kind=""):
        """Report a failing case.  `key` is the root-cause signature.  If it
        matches a listed known finding -> KNOWN-FINDING, else VIOLATION."""
        k = self.known_match(key)
        if k is not None:
            if key not in self.known_seen:
                self.known_seen[key] = k
                print("KNOWN-FINDING: property=%s %s" % (self.pid, k["what"]))
                sys.stdout.flush()
            return "known"
        if key in self.violation_keys:
            return "dup"
        self.violation_keys.add(key)
        if len(self.violations) >= self.max_violations:
            return "capped"
        rec = {
            "property": self.pid,
            "kind": kind,
            "key": key,
            "tier": self.tier,
            "seed": self.seed,
            "case": jsonable(case),
            "expected": jsonable(expected),
            "observed": jsonable(observed),
            "how_to_read": note,
        }
        path = self.write_replay(rec)
        self.violations.append((key, path))
        print("VIOLATION property=%s replay=%s" % (self.pid, path))
        if note:
            print("  " + note.replace("\n", "\n  ")[:2000])
        sys.stdout.flush()
        return "violation"

    def write_replay(self, rec):
        if self.replaying:
            return rec.get("_path", "(replay)")
        d = os.path.join(VERIF, "replays", self.pid)
        os.makedirs(d, exist_ok=True)
        name = sha({"key": rec["key"], "case": rec["case"]})[:16] + ".json"
        path = os.path.join(d, name)
        with open(path, "w") as fp:
            json.dump(rec, fp, indent=1, sort_keys=True)
        return path

    def exclude_known(self, key, n=1):
        self.excluded_known[key] += n

    # ---- evidence -----------------------------------------------------
    def finish(self):
        wall = time.time() - self.t0
        if self.replaying:
            return 1 if self.violations else 0
        cov = {
            "evaluations": int(self.evaluations),
            "distinct_nontrivial": len(self.nontrivial),
            "rule": self.rule,
            "samples": self.samples,
            "labels": dict(sorted(self.labels.items())),
            "excluded_known": dict(self.excluded_known),
            "known_findings_reproduced": list(self.known_seen.keys()),
            "budget_exhausted": self.budget_exhausted,
        }
        cov.update(self.extra)
        if self.level == "translation_validation":
            cov.setdefault("programs", cov.get("programs", 0))
            cov.setdefault("disagreements_checked", len(self.violations))
        ev = {
            "property_id": self.pid,
            "tier": self.tier,
            "seed": self.seed,
            "level": self.level,
            "coverage": cov,
            "assumptions": self.assumptions,
            "wall_s": round(wall, 2),
            "violations": len(self.violations),
        }
        d = os.path.join(VERIF, "evidence")
        os.makedirs(d, exist_ok=True)
        tmp = os.path.join(d, self.pid + ".json.tmp")
        with open(tmp, "w") as fp:
            json.dump(ev, fp, indent=1, sort_keys=True)
        os.replace(tmp, os.path.join(d, self.pid + ".json"))
        print("%s tier=%s seed=%d evaluations=%d distinct_nontrivial=%d violations=%d "
              "known=%d wall=%.1fs" % (self.pid, self.tier, self.seed, self.evaluations,
                                        len(self.nontrivial), len(self.violations),
                                        len(self.known_seen), wall))
        return 1 if self.violations else 0

    def export(self, failures):
        return {
            "evaluations": self.evaluations,
            "nontrivial": list(self.nontrivial),
            "samples": self.samples,
            "labels": dict(self.labels),
            "excluded_known": dict(self.excluded_known),
            "budget_exhausted": self.budget_exhausted,
            "extra": self.extra,
            "failures": failures,
        }


class ShardCtx(Ctx):
    """Context used inside a worker shard: failures are collected, not printed."""

    def __init__(self, pid, tier, level, seed):
        Ctx.__init__(self, pid, tier, level)
        self.seed = seed
        self.fail_list = []

    def failure(self, key, case, expected=None, observed=None, note="", kind=""):
        if any(f["key"] == key for f in self.fail_list):
            return "dup"
        self.fail_list.append(dict(key=key, case=jsonable(case), expected=jsonable(expected),
                                   observed=jsonable(observed), note=note, kind=kind))
        return "collected"

    def export(self, failures=None):
        return Ctx.export(self, self.fail_list)


def _shard_entry(args):
    modname, fname, pid, tier, level, seed, shard, nshards, kw = args
    import importlib
    mod = importlib.import_module(modname)
    sctx = ShardCtx(pid, tier, level, seed * 1000003 + shard)
    sctx.shard = shard
    sctx.nshards = nshards
    try:
        getattr(mod, fname)(sctx, **kw)
    except Exception:
        return {"error": traceback.format_exc(), "shard": shard}
    return sctx.export()


def run_sharded(ctx, modname, fname, nshards=NCPU, **kw):
    """Run mod.fname(shard_ctx, **kw) in nshards forked processes, each with its
    own derived seed, and merge statistics and failures into ctx."""
    import multiprocessing as mp
    mpc = mp.get_context("fork")
    jobs = [(modname, fname, ctx.pid, ctx.tier, ctx.level, ctx.seed, i, nshards, kw)
            for i in range(nshards)]
    with mpc.Pool(min(nshards, NCPU), maxtasksperchild=1) as pool:
        results = pool.map(_shard_entry, jobs, chunksize=1)
    for r in results:
        if "error" in r:
            raise HarnessError("shard %s failed:\n%s" % (r["shard"], r["error"]))
        ctx.merge(r)


def pool_map(fn, items, procs=NCPU, chunksize=1):
    """Ordered parallel map in forked children of the (pristine) parent; one
    task per child process."""
    import multiprocessing as mp
    items = list(items)
    if not items:
        return []
    mpc = mp.get_context("fork")
    with mpc.Pool(min(procs, len(items)), maxtasksperchild=1) as pool:
        return pool.map(fn, items, chunksize=chunksize)


def hyp_settings(max_examples, shrink=True, **kw):
    from hypothesis import settings, Phase, HealthCheck
    phases = [Phase.explicit, Phase.generate]
    if shrink:
        phases.append(Phase.shrink)
    return settings(max_examples=max_examples, database=None, deadline=None,
                    derandomize=False, report_multiple_bugs=False,
                    phases=phases, print_blob=False,
                    suppress_health_check=list(HealthCheck), **kw)
