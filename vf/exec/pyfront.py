"""Python front end for xlib models (C03): build the generated extension with the
instrumented subject library, drive it from a generated Python script that
performs every positional/keyword split and a set of bad calls."""
import os
import subprocess
import sysconfig

from . import xlib, drivers
from .xlib import INT_TYPES, FLT_TYPES

PY = "/venv/bin/python"

# rows the docs / corpus use with the Python wrapper switched on (list mode)
PY_ROWS = ["N1", "N2in", "N2out", "N2inout", "B1", "B1out", "B1inout", "S1in", "S1out", "S1c", "S3in", "S3out",
           "S3inout", "S3val", "N3in", "N3out", "N3inout", "N2ref", "N2refout", "E1", "V1in"]
PY_RESULTS = ["void", "N", "B", "C", "S1", "S3", "S3ref", "E"]
# overload sets distinguishable by Python argument types (a Python int is accepted where a double
# or - as bool is a subclass of int - an int is expected, so those pairs are not used)
PY_OVL_SIGS = [[], ["int"], ["string"], ["int", "int"], ["int", "string"], ["string", "bool"]]
# 8/16-bit integers are parsed with the format unit "i" into 1- or 2-byte variables (recorded
# known finding: the 4-byte store clobbers neighbouring variables): excluded, probed separately
PY_TYPES = [t for t in xlib.NUM_T_ALL if t not in ("int8_t", "int16_t", "uint8_t", "uint16_t")]


def py_inputs(f, call=None):
    """Parameters that are Python-visible inputs, in declaration order."""
    res = []
    for idx, p in enumerate(f["params"]):
        if call is not None and "nargs" in call and idx >= call["nargs"]:
            continue
        if p.get("implied_of"):
            continue
        if p["dir"] in ("in", "inout") or p.get("size_for"):
            if p["row"] in ("K1ptr", "K1ref"):
                res.append(p)
            elif p["dir"] != "out":
                res.append(p)
    return res


def py_lit(p, call, op=None):
    row, T, nm = p["row"], p["T"], p["name"]
    ins = call["inputs"]
    if row in ("K1ptr", "K1ref"):
        return "obj[%d]" % op["objs"][nm]
    v = ins[nm]
    if row in ("S1in", "S3in", "S3val", "S3inout"):
        return repr(v["text"])
    if row in ("N3in", "N3inout", "V1in"):
        return "[" + ", ".join(py_scalar(T, x) for x in v) + "]"
    return py_scalar(T, v)


def py_scalar(T, v):
    if T in FLT_TYPES:
        if v == 0.0 and str(v).startswith("-"):
            return "-0.0"
        return repr(float(v))
    if T == "bool":
        return "True" if v else "False"
    if T == "char":
        return repr(v)
    return repr(int(v))


PRELUDE = r'''
import struct, sys, gc
import xlib
def P(s):
    sys.stdout.write(s + "\n"); sys.stdout.flush()
def esc(s):
    return "%d:%s" % (len(s), "".join("_" if c == " " else c for c in s))
def fbits(v, single=False):
    if single:
        v = struct.unpack("<f", struct.pack("<f", v))[0]
    return "%016x" % struct.unpack("<Q", struct.pack("<d", float(v)))[0]
def show(slot, kind, v):
    s = "O rv " if slot < 0 else "O %d " % slot
    if kind == "i":
        if isinstance(v, bool) or not isinstance(v, int):
            P(s + "WRONGTYPE " + type(v).__name__); return
        P(s + "i %d" % v)
    elif kind == "d":
        if not isinstance(v, float):
            P(s + "WRONGTYPE " + type(v).__name__); return
        P(s + "d " + fbits(v))
    elif kind == "b":
        P(s + "b %d" % (1 if v else 0))
    elif kind == "c":
        P(s + ("c %d" % ord(v) if isinstance(v, str) and len(v) == 1 else "WRONGTYPE " + repr(v)))
    elif kind == "s":
        P(s + ("s " + esc(v) if isinstance(v, str) else "WRONGTYPE " + type(v).__name__))
    elif kind == "ai":
        P(s + "ai %d [%s]" % (len(v), " ".join("%d" % x for x in v)))
    elif kind == "ad":
        P(s + "ad %d [%s]" % (len(v), " ".join(fbits(x) for x in v)))
def unpack(r, n):
    if n == 0:
        return [] if r is None else ["NOTNONE"]
    if n == 1:
        return [r]
    if not isinstance(r, tuple) or len(r) != n:
        return ["BADTUPLE"] * n
    return list(r)
def bad(fn, *a, **k):
    try:
        fn(*a, **k)
    except (TypeError, ValueError):
        P("X ok")
    except BaseException as e:
        P("X wrong-exception " + type(e).__name__)
    else:
        P("X accepted")
obj = {}
'''


def kind_of(T, row):
    if row in ("N3in", "N3inout", "N3out"):
        return "ad" if T in FLT_TYPES else "ai"
    if T in INT_TYPES:
        return "i"
    if T in FLT_TYPES:
        return "d"
    if T == "bool":
        return "b"
    if T == "char" and row in ("S1c", "C"):
        return "c"
    return "s"


def out_slots(f):
    """[(slot, kind)] in the order Python returns them: result, then out/inout arguments."""
    res = []
    r = f["ret"]
    if r:
        res.append((-1, kind_of(r["T"], r["row"])))
    for idx, p in enumerate(f["params"]):
        if p["dir"] in ("out", "inout") and not p.get("implied_of"):
            res.append((idx, kind_of(p["T"], p["row"])))
    return res


def py_target(lib, op):
    f = op["f"]
    if op["kind"] == "new":
        return "xlib.%s" % op["cls"]
    if op["kind"] == "mcall":
        return "obj[%d].%s" % (op["obj"], f["name"])
    if f["kind"] == "smethod":
        return "xlib.%s.%s" % (f["cls"], f["name"])
    return "xlib.%s" % f["name"]


def py_plan(lib):
    """xlib.plan, plus for every plain/method call ALL positional/keyword splits and bad calls."""
    ops = []
    counts = {}

    def next_k(f):
        k = counts.get(f["fid"], 0)
        counts[f["fid"]] = k + 1
        return k % len(f["calls"])
    done_bad = set()
    for op in xlib.plan(lib):
        if op["kind"] == "del":
            continue            # object finalisation is probed separately (known finding)
        f = op["f"]
        if op["kind"] in ("new", "make"):
            k = next_k(f)
            ops.append(dict(op, k=k, split=len(py_inputs(f, f["calls"][k])), perm=False))
            continue
        # how many inputs does the NEXT call vector have?
        k0 = counts.get(f["fid"], 0) % len(f["calls"])
        n0 = len(py_inputs(f, f["calls"][k0]))
        if n0 == 0:
            ops.append(dict(op, k=next_k(f), split=0, perm=False))
        else:
            for split in range(n0 + 1):
                k = next_k(f)
                n = len(py_inputs(f, f["calls"][k]))
                ops.append(dict(op, k=k, split=min(split, n), perm=(split % 2 == 1)))
        if f["fid"] in done_bad:
            continue
        done_bad.add(f["fid"])
        # bad calls (never reach the library, so the counters do not move)
        kb = counts[f["fid"]] % len(f["calls"])
        base = dict(op, k=kb)
        nb = len(py_inputs(f, f["calls"][kb]))
        ops.append(dict(base, bad="unknown-keyword"))
        if f.get("noverload", 1) > 1:
            # another overload may legitimately accept a changed argument list: only a call
            # that can match none of them (five list arguments) is used
            ops.append(dict(base, bad="no-overload"))
            continue
        if not f.get("ndefault"):
            if nb:
                ops.append(dict(base, bad="too-few"))
            ops.append(dict(base, bad="too-many"))
        for i in range(nb):
            ops.append(dict(base, bad="wrong-type", pos=i))
    return ops


def wrong_value(p):
    T, row = p["T"], p["row"]
    if row in ("K1ptr", "K1ref"):
        return "3"
    if row in ("N3in", "N3inout", "V1in"):
        return "3"
    if T in INT_TYPES:
        return "1.5"
    if T in FLT_TYPES:
        return "'x'"
    if T == "bool":
        return "'x'"
    return "3"          # strings / char


def py_driver(lib):
    out = [PRELUDE]
    for site, op in enumerate(py_plan(lib)):
        out.append("P('C %d')" % site)
        f = op["f"]
        call = f["calls"][op["k"]]
        inputs = py_inputs(f, call)
        lits = [py_lit(p, call, op) for p in inputs]
        names = [p["name"] for p in inputs]
        target = py_target(lib, op)
        if op.get("bad"):
            if op["bad"] == "too-few":
                out.append("bad(%s%s)" % (target, "".join(", " + l for l in lits[:-1])))
            elif op["bad"] == "too-many":
                out.append("bad(%s%s, 7)" % (target, "".join(", " + l for l in lits)))
            elif op["bad"] == "no-overload":
                out.append("bad(%s, [], {}, [], {}, [])" % target)
            elif op["bad"] == "unknown-keyword":
                out.append("bad(%s%s, no_such_argument=1)" % (target, "".join(", " + l for l in lits)))
            else:
                ls = list(lits)
                ls[op["pos"]] = wrong_value(inputs[op["pos"]])
                out.append("bad(%s%s)" % (target, "".join(", " + l for l in ls)))
            continue
        j = op["split"]
        kw = ["%s=%s" % (n_, l) for n_, l in zip(names[j:], lits[j:])]
        if op.get("perm"):
            kw.reverse()
        argtext = ", ".join(lits[:j] + kw)
        if op["kind"] in ("new", "make"):
            out.append("obj[%d] = %s(%s)" % (op["obj"], target, argtext))
            continue
        slots = out_slots(f)
        out.append("r = unpack(%s(%s), %d)" % (target, argtext, len(slots)))
        for i, (slot, kind) in enumerate(slots):
            out.append("show(%d, %r, r[%d])" % (slot, kind, i))
    out.append("xlib.__dict__  # keep module alive")
    out.append("P('DONE')")
    return "\n".join(out) + "\n"


def expected_stream(lib):
    lines = []
    serial_of = {}
    nserial = 0
    borrowed = None
    for site, op in enumerate(py_plan(lib)):
        f = op["f"]
        if op.get("bad"):
            lines += ["C %d" % site, "X ok"]          # TypeError/ValueError, the library is not reached
            continue
        call = f["calls"][op["k"]]
        ec = xlib.expected_call(f, call, site, "c", serial_of, op)
        if op["kind"] == "new":
            nserial += 1
            serial_of[op["obj"]] = nserial
            ec = ec + ["NEW %d" % nserial]
        elif op["kind"] == "make":
            if f["owned"]:
                nserial += 1
                serial_of[op["obj"]] = nserial
                ec = ec + ["NEW %d" % nserial]
            else:
                if borrowed is None:
                    nserial += 1
                    borrowed = nserial
                    ec = ec + ["NEW %d" % nserial]
                serial_of[op["obj"]] = borrowed
        lines += ec
    lines.append("DONE")
    return lines


def build_and_run(work, lib, gen_files, asan=False, modname="xlib"):
    srcs = xlib.subject_sources(lib)
    for fn, text in srcs.items():
        with open(os.path.join(work, fn), "w") as fp:
            fp.write(text)
    cxx = lib["language"] == "c++"
    inc = sysconfig.get_paths()["include"]
    objs = []

    def compile_(cmd, src):
        obj = os.path.splitext(src)[0] + ".o"
        rc, so, se = drivers.run_cmd(cmd + ["-g", "-fPIC", "-I", ".", "-I", inc, "-c", src, "-o", obj], work)
        if rc != 0:
            return "%s does not compile: %s" % (src, (se or so)[-1500:])
        objs.append(obj)
        return None
    err = compile_(["gcc", "-std=c99"], "vf_support.c")
    if err:
        return dict(stage="harness", detail=err, stream=[])
    err = compile_(["g++", "-std=c++11"] if cxx else ["gcc", "-std=c99"], "xlib.cpp" if cxx else "xlib.c")
    if err:
        return dict(stage="harness", detail=err, stream=[])
    for fn in sorted(gen_files):
        if fn.startswith("py") and fn.endswith((".cpp", ".c")):
            err = compile_(["g++", "-std=c++11", "-w"] if fn.endswith(".cpp") else ["gcc", "-std=c99", "-w"], fn)
            if err:
                return dict(stage="wrapper-build", detail=err, stream=[])
    rc, so, se = drivers.run_cmd(["g++", "-shared"] + objs + ["-o", modname + ".so", "-Wl,--no-undefined",
                                                               "-L" + sysconfig.get_config_var("LIBDIR"), "-lpython3.12"], work)
    if rc != 0:
        return dict(stage="link", detail=(se or so)[-1500:], stream=[])
    with open(os.path.join(work, "drv.py"), "w") as fp:
        fp.write(py_driver(lib))
    env = dict(os.environ, PYTHONPATH=work, LD_LIBRARY_PATH=sysconfig.get_config_var("LIBDIR"), PYTHONHASHSEED="0")
    try:
        cp = subprocess.run([PY, "drv.py"], cwd=work, capture_output=True, text=True, timeout=120, env=env, errors="replace")
    except subprocess.TimeoutExpired:
        return dict(stage="run", detail="python driver timed out", stream=[])
    stream = [l for l in cp.stdout.split("\n") if l]
    if cp.returncode != 0:
        return dict(stage="run", detail="python exits with status %s: %s" % (cp.returncode, cp.stderr[-1500:]), stream=stream)
    return dict(stage="ok", detail="", stream=stream)
