"""Lua front end (C18): the generated binding is compiled against the reference
Lua C-API emulator (vf/luaemu) and driven by a generated C++ program that builds
argument stacks, calls the registered functions and shows what is left on the
stack."""
import os

from . import xlib, drivers
from .xlib import INT_TYPES, FLT_TYPES

EMU = os.path.join(os.path.dirname(os.path.dirname(os.path.abspath(__file__))), "luaemu")

# lua.rst / regression tests: scalars, bool, strings, classes, overloads, default arguments
LUA_ROWS = ["N1", "B1", "S3in", "E1"]   # (const char * arguments get no declaration in the Lua wrapper; the corpus only uses std::string)
LUA_RESULTS = ["void", "N", "B", "S3", "S3ref", "E"]   # (a const char * result produces an empty Lua wrapper: char * is outside the supported subset)
LUA_TYPES = ["int", "long", "double", "float", "short", "int32_t", "int64_t", "size_t", "unsigned int"]


def restrict(lib):
    """Keep what the Lua wrapper supports: free functions taking or returning class pointers are
    switched off for Lua in the corpus (classes.yaml) and are removed here."""
    for c in lib.get("classes", []):
        c["makers"] = []
        c["users"] = []
        c["statics"] = []      # registered in the metatable, only reachable through an object
    return lib


def kind_of(T):
    if T in INT_TYPES:
        return "i"
    if T in FLT_TYPES:
        return "d"
    if T == "bool":
        return "b"
    return "s"


def push(p, call):
    row, T, nm = p["row"], p["T"], p["name"]
    v = call["inputs"][nm]
    if row in ("S1in", "S3in"):
        return "lua_pushstring(L, %s);" % xlib.c_str(v["text"])
    if T in INT_TYPES:
        return "lua_pushinteger(L, (lua_Integer) %s);" % xlib.c_lit(T, v)
    if T in FLT_TYPES:
        return "lua_pushnumber(L, (lua_Number) %s);" % xlib.c_lit(T, v)
    if T == "bool":
        return "lua_pushboolean(L, %d);" % (1 if v else 0)
    raise ValueError(T)


def lua_plan(lib):
    ops = []
    counts = {}

    def next_k(f):
        k = counts.get(f["fid"], 0)
        counts[f["fid"]] = k + 1
        return k % len(f["calls"])
    created = set()
    for op in xlib.plan(lib):
        if op["kind"] == "make" or (op["kind"] == "call" and op.get("objs")):
            continue                    # class pointer results / arguments of free functions: outside the Lua subset
        if op["kind"] == "new":
            created.add(op["obj"])
        if op["kind"] in ("mcall", "del") and op["obj"] not in created:
            continue
        if op["kind"] == "del":
            ops.append(op)
            continue
        f = op["f"]
        ops.append(dict(op, k=next_k(f)))
    # non-matching stacks for functions with dispatch code (overload sets, default arguments, constructors)
    seen = set()
    for op in list(ops):
        if op["kind"] == "del":
            continue
        f = op["f"]
        dispatch = f.get("noverload", 1) > 1 or f.get("ndefault")
        key = (f["name"], f.get("cls"))
        if not dispatch or key in seen or op["kind"] != "call":
            continue
        seen.add(key)
        ops.append(dict(kind="bad", f=f, k=0, bad="too-many"))
        ops.append(dict(kind="bad", f=f, k=0, bad="wrong-type"))
    # one argument of an otherwise matching stack replaced by a value no scalar signature accepts: every
    # position of every admitted argument count (the guard of each position is what selects the member)
    seen = set()
    for op in list(ops):
        if op["kind"] not in ("call", "mcall"):
            continue
        f = op["f"]
        if not (f.get("noverload", 1) > 1 or f.get("ndefault")):
            continue
        call = f["calls"][op["k"]]
        nargs = call.get("nargs", len(f["params"]))
        key = (f["fid"], nargs)
        if key in seen:
            continue
        seen.add(key)
        for j in range(nargs):
            ops.append(dict(op, kind="bad", bad="wrong-at", j=j, via=op["kind"]))
    return ops


def lua_driver(lib):
    out = ['#include <stdio.h>', '#include <stdint.h>', '#include <stddef.h>', '#include "lua.h"', '#include "lauxlib.h"', '#include "luaemu.h"', '#include "vf_support.h"',
           'extern "C" int luaopen_xlib(lua_State *L);', "int main(void)", "{", "    lua_State *L = vfl_newstate();",
           "    int n;", "    luaopen_xlib(L);", "    vfl_capture_module(L);"]
    for site, op in enumerate(lua_plan(lib)):
        out.append("    vf_callsite(%d);" % site)
        out.append("    vfl_settop0(L);")
        if op["kind"] == "del":
            out += ["    vfl_pushsaved(L, %d);" % op["obj"], '    n = vfl_callmethod(L, "__gc");',
                    '    if (n < 0) printf("X %d\\n", n);', "    fflush(stdout);"]
            continue
        f = op["f"]
        call = f["calls"][op["k"]]
        if op["kind"] == "bad" and op["bad"] == "wrong-at":
            if op["via"] == "mcall":
                out.append("    vfl_pushsaved(L, %d);" % op["obj"])
            for idx, p in enumerate(f["params"]):
                if "nargs" in call and idx >= call["nargs"]:
                    continue
                out.append("    lua_newuserdata(L, 4);" if idx == op["j"] else "    " + push(p, call))
            out += [('    n = vfl_callmethod(L, "%s");' if op["via"] == "mcall" else '    n = vfl_call(L, "%s");') % f["name"],
                    '    if (n == -1) printf("X error\\n"); else printf("X accepted %d\\n", n);', "    fflush(stdout);"]
            continue
        if op["kind"] == "bad":
            if op["bad"] == "too-many":
                out += ["    lua_pushinteger(L, 1);"] * 8      # more than any generated signature takes
            else:
                # a table-like value (userdata) matches no scalar signature
                out += ["    lua_newuserdata(L, 4);"]
            out += ['    n = vfl_call(L, "%s");' % f["name"],
                    '    if (n == -1) printf("X error\\n"); else printf("X accepted %d\\n", n);', "    fflush(stdout);"]
            continue
        if op["kind"] == "mcall":
            out.append("    vfl_pushsaved(L, %d);" % op["obj"])
        for idx, p in enumerate(f["params"]):
            if "nargs" in call and idx >= call["nargs"]:
                continue
            out.append("    " + push(p, call))
        if op["kind"] == "new":
            out += ['    n = vfl_call(L, "%s");' % op["cls"], '    printf("R %d\\n", n);',
                    "    if (n == 1) vfl_save(L, -1, %d);" % op["obj"], "    fflush(stdout);"]
            continue
        if op["kind"] == "mcall":
            out.append('    n = vfl_callmethod(L, "%s");' % f["name"])
        else:
            out.append('    n = vfl_call(L, "%s");' % f["name"])
        out += ['    printf("R %d\\n", n);', "    fflush(stdout);"]
        r = f["ret"]
        if r:
            kind = kind_of(r["T"]) if r["row"] in ("N", "B") else "s"
            out.append("    if (n >= 1) vfl_show(L, vfl_result_index(L, n, 0), -1, '%s');" % kind)
    out += ["    return 0;", "}"]
    return "\n".join(out) + "\n"


def expected_stream(lib):
    lines = []
    serial_of = {}
    nserial = 0
    for site, op in enumerate(lua_plan(lib)):
        if op["kind"] == "del":
            lines += ["C %d" % site, "E %d" % op["fid"], "DEL %d" % serial_of[op["obj"]]]
            continue
        f = op["f"]
        if op["kind"] == "bad":
            lines += ["C %d" % site, "X error"]        # a Lua error, the library is not reached
            continue
        call = f["calls"][op["k"]]
        ec = xlib.expected_call(f, call, site, "c", serial_of, op)
        # split into library-side lines and caller-side observations
        lib_lines = [l for l in ec if not l.startswith("O ")]
        obs = [l for l in ec if l.startswith("O rv")]
        if op["kind"] == "new":
            nserial += 1
            serial_of[op["obj"]] = nserial
            lines += lib_lines + ["NEW %d" % nserial, "R 1"]
            continue
        r = f["ret"]
        lines += lib_lines + ["R %d" % (1 if r else 0)] + [fix_float(o, r) for o in obs]
    return lines


def fix_float(line, r):
    return line


def build_and_run(work, lib, gen_files, asan=False):
    srcs = xlib.subject_sources(lib)
    for fn, text in srcs.items():
        with open(os.path.join(work, fn), "w") as fp:
            fp.write(text)
    objs = []

    def compile_(cmd, src, out=None):
        obj = out or (os.path.splitext(os.path.basename(src))[0] + ".o")
        rc, so, se = drivers.run_cmd(cmd + ["-g", "-I", ".", "-I", EMU, "-c", src, "-o", obj], work)
        if rc != 0:
            return "%s does not compile: %s" % (src, (se or so)[-1500:])
        objs.append(obj)
        return None
    err = compile_(["gcc", "-std=c99"], "vf_support.c") or compile_(["g++", "-std=c++11"], "xlib.cpp") or \
        compile_(["g++", "-std=c++11"], os.path.join(EMU, "luaemu.cpp"))
    if err:
        return dict(stage="harness", detail=err, stream=[])
    for fn in sorted(gen_files):
        if fn.startswith("lua") and fn.endswith((".cpp", ".c")):
            err = compile_(["g++", "-std=c++11", "-w"], fn)
            if err:
                return dict(stage="wrapper-build", detail=err, stream=[])
    with open(os.path.join(work, "drv.cpp"), "w") as fp:
        fp.write(lua_driver(lib))
    err = compile_(["g++", "-std=c++11"], "drv.cpp")
    if err:
        return dict(stage="harness", detail=err, stream=[])
    rc, so, se = drivers.run_cmd(["g++"] + objs + ["-o", "drv"], work)
    if rc != 0:
        return dict(stage="link", detail=(se or so)[-1500:], stream=[])
    import subprocess
    try:
        rc, so, se = drivers.run_cmd([os.path.join(work, "drv")], work, timeout=60)
    except subprocess.TimeoutExpired:
        return dict(stage="run", detail="driver timed out", stream=[])
    stream = [l for l in so.split("\n") if l]
    if rc != 0:
        return dict(stage="run", detail="driver exit status %s: %s" % (rc, se[-800:]), stream=stream)
    return dict(stage="ok", detail="", stream=stream)
