"""Executed-wrapper machinery: instrumented subject library, reference model and
drivers (C, Fortran) for generated library descriptions.

Model
  Lib   = {name, language, funcs[Func], classes[Class], enum}
  Func  = {name, fid, cls, kind (func|ctor|dtor|method|smethod), params[Param], ret (Ret or None),
           suffix (explicit function_suffix or None), calls[Call]}
  Param = {name, row, T, attrs, dir (in|out|inout), companion (implied-size param name or None)}
  Call  = {inputs {param: value}, outputs {slot: value}}     slot = 'rv' or a parameter name

The subject library logs every received argument ("A idx kind value") after an
"E fid" line, returns / stores the scripted outputs; drivers print "C site" before
each call and "O slot kind value" for everything they get back.  One text stream,
compared with the stream `expected_stream` predicts from the model alone.
"""
import struct

from hypothesis import strategies as st

from ..props.c08 import un_camel

INT_TYPES = {
    "short": ("short", "C_SHORT", 16, True), "int": ("int", "C_INT", 32, True), "long": ("long", "C_LONG", 64, True),
    "long long": ("long long", "C_LONG_LONG", 64, True), "size_t": ("size_t", "C_SIZE_T", 64, False),
    "int8_t": ("int8_t", "C_INT8_T", 8, True), "int16_t": ("int16_t", "C_INT16_T", 16, True),
    "int32_t": ("int32_t", "C_INT32_T", 32, True), "int64_t": ("int64_t", "C_INT64_T", 64, True),
    "uint8_t": ("uint8_t", "C_INT8_T", 8, False), "uint16_t": ("uint16_t", "C_INT16_T", 16, False),
    "uint32_t": ("uint32_t", "C_INT32_T", 32, False), "uint64_t": ("uint64_t", "C_INT64_T", 64, False),
    "unsigned int": ("unsigned int", "C_INT", 32, False), "unsigned long": ("unsigned long", "C_LONG", 64, False),
    "unsigned short": ("unsigned short", "C_SHORT", 16, False),
}
FLT_TYPES = {"float": ("float", "C_FLOAT"), "double": ("double", "C_DOUBLE")}
ARRAY_T = ["int", "long", "double", "float"]

FLT_VALUES = [0.0, -0.0, 1.5, -2.25, 1024.0, 2.0 ** -20, 2.0 ** 100, -3.0, 0.5]
STR_ALPHA = "ab ~"


def int_range(T, fortran_safe):
    _c, _k, bits, signed = INT_TYPES[T]
    if signed:
        return -(1 << (bits - 1)), (1 << (bits - 1)) - 1
    # Fortran has no unsigned integers: keep values in the non-negative signed range there
    return 0, ((1 << (bits - 1)) - 1) if fortran_safe else ((1 << bits) - 1)


@st.composite
def value_of(draw, T, fortran_safe=True):
    if T in INT_TYPES:
        lo, hi = int_range(T, fortran_safe)
        return draw(st.sampled_from([0, 1, lo, hi, min(hi, 42), max(lo, -7) if lo < 0 else 7, hi // 2, -1 if lo < 0 else 2]))
    if T in FLT_TYPES:
        return draw(st.sampled_from(FLT_VALUES))
    if T == "bool":
        return draw(st.booleans())
    if T == "char":
        return draw(st.sampled_from("abZ~"))
    raise ValueError(T)


@st.composite
def text_of(draw, maxlen, minlen=0, allow_trailing_blank=True):
    n = draw(st.integers(minlen, maxlen))
    s = "".join(draw(st.sampled_from(STR_ALPHA)) for _ in range(n))
    if not allow_trailing_blank:
        s = s.rstrip(" ")
    return s


# ---------------------------------------------------------------------------
# rows

def P(name, row, T, ctype, attrs="", dir="in", **kw):
    d = dict(name=name, row=row, T=T, ctype=ctype, attrs=attrs, dir=dir)
    d.update(kw)
    return d


ENUM_NAME = "XColor"
# an expression-valued member, then an integer-valued one, then implicit ones, then an expression again
# (cxx enumerator = value expression; the callers use the generated names, as a user would)
ENUM_TEXTS = [("XC_RED", "2"), ("XC_DEFLT", "XC_RED"), ("XC_GREEN", "5"), ("XC_BLUE", None), ("XC_CYAN", None),
              ("XC_LAST", "XC_CYAN + 2")]
ENUM_MEMBERS = [("XC_RED", 2), ("XC_DEFLT", 2), ("XC_GREEN", 5), ("XC_BLUE", 6), ("XC_CYAN", 7), ("XC_LAST", 9)]
ENUM_DECL = "enum %s { %s }" % (ENUM_NAME, ", ".join(n if t is None else "%s = %s" % (n, t) for n, t in ENUM_TEXTS))


def enum_member(value, salt=0):
    """Name of a member with this value (the same value may have two names)."""
    names = [n for n, v in ENUM_MEMBERS if v == value]
    return names[salt % len(names)]

DIM_FORMS = ["{m}", "{m}", "{m}+1", "{m},{k}", "{m},{k}-1", "{m}+1,{k}"]


def extents(p, ins):
    """Extents of an intent(out)+dimension(...) argument for the size arguments of one call."""
    nm = p["name"]
    m, k = ins["m" + nm], ins.get("k" + nm, 1)
    res = []
    for part in p.get("dimform", "{m}").split(","):
        res.append({"{m}": m, "{m}+1": m + 1, "{k}": k, "{k}-1": k - 1}[part])
    return res


VECTOR_ROWS = ["V1in", "V1out", "V1inout", "V1outalloc", "V1inoutalloc"]
NUM_T_ALL = sorted(INT_TYPES) + sorted(FLT_TYPES)
NUM_T = NUM_T_ALL


def has_vector(f):
    return any(p["row"] in VECTOR_ROWS for p in f["params"]) or bool(f.get("ret") and f["ret"]["row"] == "V")


def lib_has_vector(lib):
    return any(has_vector(f) for f in lib["funcs"]) or \
        any(has_vector(f) for c in lib.get("classes", []) for k in ("methods", "statics") for f in c[k])


def without_vectors(lib):
    """The library without its std::vector functions.  Used for configurations with F_CFI: std::vector
    together with F_CFI is a recorded finding (C05 probe:vector-with-cfi - the wrapper does not compile),
    so that shape is excluded by construction.  -> (library, number of functions removed)"""
    keep = [f for f in lib["funcs"] if not has_vector(f)]
    nrem = len(lib["funcs"]) - len(keep)
    classes = []
    for c in lib.get("classes", []):
        c2 = dict(c)
        for k in ("methods", "statics"):
            c2[k] = [f for f in c[k] if not has_vector(f)]
            nrem += len(c[k]) - len(c2[k])
        if not c2["methods"]:
            # (the life-cycle plan needs one method: the first one, without its vector result)
            import copy
            m = copy.deepcopy(c["methods"][0])
            m["ret"] = None
            for call in m["calls"]:
                call["outputs"].pop("rv", None)
            c2["methods"] = [m]
        classes.append(c2)
    return dict(lib, funcs=keep, classes=classes), nrem


@st.composite
def param(draw, i, lang, for_fortran=True, allowed=None, types=None):
    n = "a%d" % i
    NUM_T = [t for t in NUM_T_ALL if types is None or t in types]
    rows = ["N1", "N1", "N2in", "N2out", "N2inout", "B1", "B1out", "B1inout", "S1in", "S1out", "N3in", "N3inout", "N3out", "S1c"]
    rows.append("S1inout")
    if lang == "c++":
        rows += ["N2ref", "N2refout", "S3in", "S3out", "S3inout", "S3val", "E1"]
        if for_fortran:
            # declarations.rst "std::vector" (Fortran API: assumed-shape arrays; the C API of a vector
            # argument is not documented, so the C front end does not use these rows)
            rows += VECTOR_ROWS
    if allowed is not None:
        rows = [r for r in rows if r in allowed]
    row = draw(st.sampled_from(rows))
    if row == "N1":
        T = draw(st.sampled_from(NUM_T))
        return [P(n, row, T, "%s %s" % (T, n))]
    if row == "E1":
        # reference.rst "Enumeration": an enum argument is an int in the C API, integer(C_INT) in Fortran, an
        # integer in Python and Lua; the wrappers cast it back to the C++ enumeration
        return [P(n, "N1", "int", "%s %s" % (ENUM_NAME, n), enum=True)]
    if row == "N2in":
        T = draw(st.sampled_from(NUM_T))
        return [P(n, row, T, "const %s *%s" % (T, n))]
    if row in ("N2out", "N2inout"):
        T = draw(st.sampled_from(NUM_T))
        d = row[2:]
        return [P(n, row, T, "%s *%s" % (T, n), "+intent(%s)" % d, d)]
    if row in ("N2ref", "N2refout"):
        T = draw(st.sampled_from(NUM_T))
        d = "inout" if row == "N2ref" else "out"
        return [P(n, row, T, "%s &%s" % (T, n), "+intent(%s)" % d, d)]
    if row == "B1":
        return [P(n, row, "bool", "bool %s" % n)]
    if row in ("B1out", "B1inout"):
        d = row[2:]
        return [P(n, row, "bool", "bool *%s" % n, "+intent(%s)" % d, d)]
    if row == "S1in":
        return [P(n, row, "char", "const char *%s" % n)]
    if row == "S1c":
        return [P(n, row, "char", "char %s" % n)]
    if row == "S1out":
        return [P(n, row, "char", "char *%s" % n, "+intent(out)+charlen(20)", "out", charlen=20)]
    if row == "S1inout":
        return [P(n, row, "char", "char *%s" % n, "+intent(inout)", "inout")]
    if row in VECTOR_ROWS:
        T = draw(st.sampled_from(["int", "double", "long", "int64_t", "int32_t"]))
        if row == "V1in":
            return [P(n, row, T, "const std::vector<%s> &%s" % (T, n))]
        attrs, d = {"V1out": ("+intent(out)", "out"), "V1inout": ("", "inout"),
                    "V1outalloc": ("+intent(out)+deref(allocatable)", "out"),
                    "V1inoutalloc": ("+intent(inout)+deref(allocatable)", "inout")}[row]
        return [P(n, row, T, "std::vector<%s> &%s" % (T, n), attrs, d)]
    if row == "S3in":
        return [P(n, row, "string", "const std::string &%s" % n)]
    if row == "S3val":
        return [P(n, row, "string", "std::string %s" % n)]
    if row in ("S3out", "S3inout"):
        d = row[2:]
        return [P(n, row, "string", "std::string &%s" % n, "+intent(%s)" % d, d)]
    if row == "N3in":
        T = draw(st.sampled_from(ARRAY_T))
        return [P(n, row, T, "const %s *%s" % (T, n), "+rank(1)", companion="n" + n),
                P("n" + n, "implied", "int", "int n%s" % n, "+implied(size(%s))" % n, implied_of=n)]
    if row == "N3inout":
        T = draw(st.sampled_from(ARRAY_T))
        return [P(n, row, T, "%s *%s" % (T, n), "+rank(1)+intent(inout)", "inout", companion="n" + n),
                P("n" + n, "implied", "int", "int n%s" % n, "+implied(size(%s))" % n, implied_of=n)]
    if row == "N3out":
        # pointers.rst: intent(out) + dimension(...): extents are expressions over other arguments, rank 1 or 2
        T = draw(st.sampled_from(ARRAY_T))
        form = draw(st.sampled_from(DIM_FORMS))
        ps = [P("m" + n, "N1", "int", "int m%s" % n, size_for=n, size_role="m")]
        if "{k}" in form:
            ps.append(P("k" + n, "N1", "int", "int k%s" % n, size_for=n, size_role="k"))
        ps.append(P(n, row, T, "%s *%s" % (T, n), "+intent(out)+dimension(%s)" % form.format(m="m" + n, k="k" + n), "out",
                    size_from="m" + n, dimform=form))
        return ps
    raise ValueError(row)


@st.composite
def result(draw, lang, for_fortran=True, allowed=None, types=None):
    NUM_T = [t for t in NUM_T_ALL if types is None or t in types]
    rows = ["void", "void", "N", "N", "B", "C", "S1", "S1len"]
    if lang == "c++":
        rows += ["S3ref", "S3len", "E"]
        if for_fortran:
            # a std::string returned by value has no plain C wrapper (documented: only the
            # buffer variant for Fortran is created), so the C front end does not use it
            rows.append("S3")
            rows.append("V")           # vectors.yaml ReturnVectorAlloc: allocatable array result
    if allowed is not None:
        rows = [x for x in rows if x in allowed]
    r = draw(st.sampled_from(rows))
    if r == "void":
        return None
    if r == "N":
        T = draw(st.sampled_from(NUM_T))
        return dict(row="N", T=T, ctype=T, attrs="")
    if r == "E":
        return dict(row="N", T="int", ctype=ENUM_NAME, attrs="", enum=True)
    if r == "B":
        return dict(row="B", T="bool", ctype="bool", attrs="")
    if r == "C":
        return dict(row="C", T="char", ctype="char", attrs="")
    if r == "S1":
        return dict(row="S1", T="char", ctype="const char *", attrs="")
    if r == "S1len":
        # (a declared length shorter than what the library returns: the documented truncation)
        n = draw(st.sampled_from([30, 30, 8, 5]))
        return dict(row="S1len", T="char", ctype="const char *", attrs="+len(%d)" % n, flen=n)
    if r == "V":
        T = draw(st.sampled_from(["int", "double"]))
        return dict(row="V", T=T, ctype="std::vector<%s>" % T, attrs="")
    if r == "S3":
        return dict(row="S3", T="string", ctype="const std::string", attrs="")
    if r == "S3ref":
        return dict(row="S3ref", T="string", ctype="const std::string &", attrs="")
    if r == "S3len":
        n = draw(st.sampled_from([30, 30, 8, 5]))
        return dict(row="S3len", T="string", ctype="const std::string &", attrs="+len(%d)" % n, flen=n)
    raise ValueError(r)


@st.composite
def call_vector(draw, f, for_fortran=True):
    """One scripted call: driver inputs and library outputs."""
    ins, outs = {}, {}
    sizes = {}
    for p in f["params"]:
        row, T = p["row"], p["T"]
        if p.get("implied_of"):
            continue
        if p.get("size_for"):
            n = draw(st.sampled_from([0, 1, 2, 4])) if p.get("size_role", "m") == "m" else draw(st.sampled_from([1, 2, 3]))
            ins[p["name"]] = n
            continue
        if p.get("enum"):
            ins[p["name"]] = draw(st.sampled_from([v for _n, v in ENUM_MEMBERS]))
        elif row in ("N1", "N2in"):
            ins[p["name"]] = draw(value_of(T, for_fortran))
        elif row in ("N2out", "N2refout"):
            outs[p["name"]] = draw(value_of(T, for_fortran))
        elif row in ("N2inout", "N2ref"):
            ins[p["name"]] = draw(value_of(T, for_fortran))
            outs[p["name"]] = draw(value_of(T, for_fortran))
        elif row == "B1":
            ins[p["name"]] = draw(st.booleans())
        elif row == "B1out":
            outs[p["name"]] = draw(st.booleans())
        elif row == "B1inout":
            ins[p["name"]] = draw(st.booleans())
            outs[p["name"]] = draw(st.booleans())
        elif row == "S1c":
            ins[p["name"]] = draw(st.sampled_from("abZ~"))
        elif row in ("S1in", "S3in", "S3val"):
            # Fortran actual: character(len=flen) holding text (blank padded); C actual: the text itself
            text = draw(text_of(8))
            ins[p["name"]] = dict(text=text, flen=len(text) + draw(st.sampled_from([0, 0, 1, 3])))
        elif row == "S1out":
            outs[p["name"]] = dict(text=draw(text_of(p["charlen"] - 1, allow_trailing_blank=False)), flen=p["charlen"])
        elif row == "S3out":
            outs[p["name"]] = dict(text=draw(text_of(10, allow_trailing_blank=False)), flen=draw(st.sampled_from([0, 1, 4, 8, 12])))
        elif row == "S3inout":
            text = draw(text_of(8))
            flen = max(len(text), draw(st.sampled_from([1, 4, 8, 12])))
            ins[p["name"]] = dict(text=text, flen=flen)
            outs[p["name"]] = dict(text=draw(text_of(10, allow_trailing_blank=False)), flen=flen)
        elif row == "S1inout":
            # the caller's character variable holds text (blank padded to flen); the library may write any
            # C string of up to flen characters into the buffer it receives
            text = draw(text_of(8))
            flen = max(len(text), draw(st.sampled_from([1, 4, 8, 12])))
            ins[p["name"]] = dict(text=text, flen=flen)
            outs[p["name"]] = dict(text=draw(text_of(12, allow_trailing_blank=False))[:flen].rstrip(" "), flen=flen)
        elif row in VECTOR_ROWS:
            if row != "V1in":
                outs[p["name"]] = [draw(value_of(T, for_fortran)) for _ in range(draw(st.sampled_from([0, 0, 1, 2, 5, 7])))]
            if row in ("V1in", "V1inout", "V1inoutalloc"):
                ins[p["name"]] = [draw(value_of(T, for_fortran)) for _ in range(draw(st.sampled_from([0, 1, 2, 5])))]
            if row == "V1out":
                sizes["flen:" + p["name"]] = draw(st.sampled_from([0, 1, 3, 5]))       # extent of the caller's array
                outs[p["name"] + "#extent"] = sizes["flen:" + p["name"]]
        elif row == "N3in":
            n = draw(st.sampled_from([0, 1, 2, 5]))
            ins[p["name"]] = [draw(value_of(T, for_fortran)) for _ in range(n)]
        elif row == "N3inout":
            n = draw(st.sampled_from([0, 1, 2, 5]))
            ins[p["name"]] = [draw(value_of(T, for_fortran)) for _ in range(n)]
            outs[p["name"]] = [draw(value_of(T, for_fortran)) for _ in range(n)]
        elif row == "N3out":
            total = 1
            for e in extents(p, ins):
                total *= e
            outs[p["name"]] = [draw(value_of(T, for_fortran)) for _ in range(total)]
    r = f["ret"]
    if r:
        if r.get("enum"):
            outs["rv"] = draw(st.sampled_from([v for _n, v in ENUM_MEMBERS]))
        elif r["row"] in ("N", "B", "C"):
            outs["rv"] = draw(value_of(r["T"], for_fortran))
        elif r["row"] == "V":
            outs["rv"] = [draw(value_of(r["T"], for_fortran)) for _ in range(draw(st.sampled_from([0, 0, 1, 2, 5])))]
        else:
            outs["rv"] = dict(text=draw(text_of(12, minlen=(0 if r["row"] != "S1" else 0), allow_trailing_blank=False)),
                              flen=r.get("flen"))
    return dict(inputs=ins, outputs=outs)


@st.composite
def function(draw, lang, fid, name, cls=None, kind="func", max_params=3, for_fortran=True, allowed=None, results=None, types=None):
    params = []
    nparam = draw(st.integers(0, max_params))
    for i in range(nparam):
        params.extend(draw(param(i, lang, for_fortran, allowed, types)))
    ret = draw(result(lang, for_fortran, results, types)) if kind in ("func", "method", "smethod") else None
    f = dict(name=name, fid=fid, cls=cls, kind=kind, params=params, ret=ret, suffix=None, const=False, calls=[])
    if kind == "method":
        f["const"] = draw(st.booleans())
    ncall = draw(st.integers(2, 4))
    f["calls"] = [draw(call_vector(f, for_fortran)) for _ in range(ncall)]
    # the element value -1 (the error return of the CPython conversion functions) in one call of every list / vector
    # input of a signed type - put there deterministically, not left to the draws
    for p in params:
        if p["row"] in ("V1in", "N3in") and (p["T"] in FLT_TYPES or (p["T"] in INT_TYPES and INT_TYPES[p["T"]][3])):
            for c in reversed(f["calls"]):
                v = c["inputs"].get(p["name"])
                if v:
                    if -1 not in v:
                        v[len(v) // 2] = -1.0 if p["T"] in FLT_TYPES else -1
                    break
        # a 64-bit integer beyond the 53 bits a double holds exactly, in one call of every 64-bit scalar input
        if p["row"] == "N1" and p["T"] in INT_TYPES and INT_TYPES[p["T"]][2] == 64 and not p.get("enum") and f["calls"]:
            c = f["calls"][-1]
            if isinstance(c["inputs"].get(p["name"]), int) and abs(c["inputs"][p["name"]]) < (1 << 53):
                c["inputs"][p["name"]] = (1 << 53) + 1
    return f


@st.composite
def library(draw, lang=None, nfunc=(4, 10), for_fortran=True, with_class=None, rows=None, results=None, types=None,
            ovl_sigs=None, with_overloads=None, with_template=None, with_coercion=False):
    lang = lang or draw(st.sampled_from(["c++", "c++", "c"]))
    lib = dict(name="XLib", language=lang, funcs=[], classes=[], cheader="xlib.hpp" if lang == "c++" else "xlib.h")
    n = draw(st.integers(*nfunc))
    fid = 1
    for i in range(n):
        lib["funcs"].append(draw(function(lang, fid, "func%d" % fid, for_fortran=for_fortran, allowed=rows, results=results, types=types)))
        fid += 1
    wo = (lang == "c++") and (draw(st.booleans()) if with_overloads is None else with_overloads)
    if wo:
        grp = draw(overload_group(lang, fid, "ovlFunc", ovl_sigs or OVL_SIGS, for_fortran))
        lib["funcs"] += grp
        fid += len(grp)
        lib["funcs"].append(draw(default_func(lang, fid, "dfltFunc", for_fortran)))
        fid += 1
    if with_coercion and lang == "c++":
        grp = draw(coercion_group(lang, fid, "pickFunc", for_fortran))
        lib["funcs"] += grp
        fid += len(grp)
    if for_fortran and rows is None and draw(st.booleans()):
        lib["funcs"].append(draw(pointer_func(lang, fid, "ptrFunc", for_fortran)))
        fid += 1
    if lang == "c++" and rows is None and results is None and types is None and \
            (with_template or (with_template is None and for_fortran and draw(st.integers(0, 2)) == 0)):
        if with_template == "ptr-result" and not for_fortran:
            with_template = "result"          # the pointer-with-hidden-extent rows belong to the Fortran front
        grp = draw(template_group(lang, fid, "tmplFunc", for_fortran, with_template or None))
        lib["funcs"] += grp
        fid += len(grp)
    wc = (lang == "c++") and (draw(st.booleans()) if with_class is None else with_class)
    if wc:
        lib["classes"].append(draw(klass(lang, fid, "Cls1", for_fortran, results, types, rows)))
    return lib


SIMPLE_ROWS = ["N1", "B1", "S1in", "S3in", "N2out", "N2in", "E1"]

# overload signatures: pairwise distinguishable by Fortran (type/kind/rank) and, in the LUA list,
# by (count, Lua type)
OVL_SIGS = [[], ["int"], ["double"], ["string"], ["int", "int"], ["bool"], ["int", "string"]]
# (no (bool) next to (string): recorded known finding, the Lua wrapper passes std::string arguments
#  as const char *, which C++ overload resolution converts to bool)
#  (the same root cause makes (string, bool) next to (bool, int) reach the wrong member, so no two
#  signatures of the same length have string and bool in the same position)
OVL_SIGS_LUA = [[], ["int"], ["string"], ["int", "int"], ["int", "string"], ["string", "bool"], ["bool", "int", "int"]]


def _sig_param(i, t):
    n = "a%d" % i
    if t == "string":
        return P(n, "S3in", "string", "const std::string &%s" % n)
    if t == "bool":
        return P(n, "B1", "bool", "bool %s" % n)
    return P(n, "N1", t, "%s %s" % (t, n))


@st.composite
def overload_group(draw, lang, fid, name, sigs, for_fortran=True):
    """tutorial.rst 'Overloaded Functions' / 'Function suffix'."""
    n = draw(st.integers(2, 3))
    chosen = draw(st.lists(st.sampled_from(sigs), min_size=n, max_size=n, unique_by=lambda x: tuple(x)))
    explicit = draw(st.sampled_from(["none", "all", "mixed"]))
    funcs = []
    # a Fortran generic interface holds either functions or subroutines: one result style per set
    # (result types may differ between the members: 'int f(int)' next to 'double f(double, double)')
    has_ret = draw(st.booleans())
    # tutorial.rst UseDefaultOverload: one member of the set may itself have trailing default arguments;
    # its required part (string, string / bool, bool for Lua) is unlike every other signature, so every arity stays unambiguous
    idef = draw(st.integers(0, n - 1)) if draw(st.integers(0, 2)) == 0 else -1
    pos = 0
    for i, sig in enumerate(chosen):
        rT = draw(st.sampled_from(["int", "double", "long", "int", "float"])) if has_ret else None
        ret = dict(row="N", T=rT, ctype=rT, attrs="") if has_ret else None
        # automatic suffixes are the position in the (expanded) set also when other members carry explicit ones
        expl = explicit == "all" or (explicit == "mixed" and draw(st.booleans()))
        if i == idef:
            # (Lua: a string next to a bool in the same position is the recorded string-selects-bool finding)
            # (so the Lua set uses three numbers, distinguishable from (bool, int, int) by the first Lua type)
            req = ["int", "int", "int"] if sigs is OVL_SIGS_LUA else ["string", "string"]
            params = [_sig_param(j, t) for j, t in enumerate(req)]
            nd = draw(st.integers(1, 2))
            for j in range(nd):
                T, text, val = draw(st.sampled_from([("int", "3", 3), ("double", "1.5", 1.5), ("int", "0", 0), ("long", "7", 7)]))
                p = P("d%d" % j, "N1", T, "%s d%d" % (T, j))
                p["default"] = text
                p["default_value"] = val
                params.append(p)
            f = dict(name=name, fid=fid + i, cls=None, kind="func", params=params, ret=(dict(ret) if ret else None), const=False,
                     suffix=None, calls=[], overload_index=i, noverload=n, ndefault=nd, ovl_pos_base=pos)
            for nargs in range(len(req), len(params) + 1):
                c = draw(call_vector(f, for_fortran))
                c["nargs"] = nargs
                f["calls"].append(c)
            pos += nd + 1
            funcs.append(f)
            continue
        f = dict(name=name, fid=fid + i, cls=None, kind="func", params=[_sig_param(j, t) for j, t in enumerate(sig)],
                 ret=(dict(ret) if ret else None), const=False,
                 suffix=("_v%d" % i) if expl else None, calls=[], overload_index=i, noverload=n, ovl_pos_base=pos)
        f["calls"] = [draw(call_vector(f, for_fortran)) for _ in range(2)]
        pos += 1
        funcs.append(f)
    return funcs


@st.composite
def pointer_func(draw, lang, fid, name, for_fortran=True):
    """pointers.rst: a pointer result / 'T **' intent(out) argument with +dimension(nx[,ny[,nz]]) whose extents
    come back through hidden intent(out) arguments; the Fortran API is a pointer to an array of that shape."""
    T = draw(st.sampled_from(["int", "double", "long"]))
    rank = draw(st.sampled_from([1, 2, 2, 3]))
    dims = ["nx", "ny", "nz"][:rank]
    hidden = [P(d, "H1out", "int", "int *%s" % d, "+intent(out)+hidden", "out") for d in dims]
    as_result = draw(st.booleans())
    if as_result:
        f = dict(name=name, fid=fid, cls=None, kind="func", params=hidden, const=False, suffix=None, calls=[],
                 ret=dict(row="P", T=T, ctype="%s *" % T, attrs="+dimension(%s)" % ",".join(dims), rank=rank))
    else:
        f = dict(name=name, fid=fid, cls=None, kind="func", const=False, suffix=None, calls=[], ret=None,
                 params=[P("grid", "P2out", T, "%s **grid" % T, "+intent(out)+dimension(%s)" % ",".join(dims), "out", rank=rank)] + hidden)
    for _ in range(3):
        shape = [draw(st.sampled_from([1, 2, 3])) for _d in dims]
        total = 1
        for e in shape:
            total *= e
        data = [draw(value_of(T, for_fortran)) for _i in range(total)]
        outs = dict(zip(dims, shape))
        outs["rv" if as_result else "grid"] = dict(shape=shape, data=data)
        f["calls"].append(dict(inputs={}, outputs=outs))
    return f


@st.composite
def coercion_group(draw, lang, fid, name, for_fortran=True):
    """Two overloads that C++ tells apart by exact match: f(int a, int b = <default>) declared first, f(double a)
    second.  An integer argument selects the first (with or without its default), a floating one the second - in
    C++, and so in every wrapper (a dispatcher that tries the members in a different order lets the integer be
    converted)."""
    has_ret = draw(st.booleans())
    ret = dict(row="N", T="int", ctype="int", attrs="") if has_ret else None
    p0 = P("a0", "N1", "int", "int a0")
    T, text, val = draw(st.sampled_from([("int", "3", 3), ("int", "0", 0), ("long", "7", 7)]))
    p1 = P("d0", "N1", T, "%s d0" % T)
    p1["default"] = text
    p1["default_value"] = val
    f0 = dict(name=name, fid=fid, cls=None, kind="func", params=[p0, p1], ret=(dict(ret) if ret else None), const=False,
              suffix=None, calls=[], overload_index=0, noverload=2, ndefault=1, ovl_pos_base=0)
    for nargs in (1, 2, 1):
        c = draw(call_vector(f0, for_fortran))
        c["nargs"] = nargs
        f0["calls"].append(c)
    f1 = dict(name=name, fid=fid + 1, cls=None, kind="func", params=[P("a0", "N1", "double", "double a0")],
              ret=(dict(ret) if ret else None), const=False, suffix=None, calls=[], overload_index=1, noverload=2, ovl_pos_base=2)
    f1["calls"] = [draw(call_vector(f1, for_fortran)) for _ in range(2)]
    return [f0, f1]


TMPL_SHAPES = ["arg", "arg+plain", "result", "two", "ptr-result"]
TMPL_SINGLE = ["int", "double", "long", "float"]
TMPL_PAIRS = [("int", "double"), ("double", "int"), ("long", "float"), ("float", "double"), ("int", "long")]


@st.composite
def template_group(draw, lang, fid, name, for_fortran=True, shape=None):
    """templates.rst / tutorial.rst 'Templates': a function template with its cxx_template instantiations.  Every
    instantiation is one function of the model (its own C name with the documented suffix: _<type> for one
    template argument, the sequence number for several; one Fortran generic unless the result is templated).
    Shapes: templated argument, plus ordinary arguments around it, templated result, two type parameters with the
    result named after the second one, templated pointer result with +dimension (hidden extent)."""
    shape = shape or draw(st.sampled_from(TMPL_SHAPES))
    if shape == "two":
        insts = draw(st.lists(st.sampled_from(TMPL_PAIRS), min_size=1, max_size=2, unique=True))
        header = "template<typename T, typename U>"
    else:
        insts = [(t,) for t in draw(st.lists(st.sampled_from(TMPL_SINGLE if shape != "ptr-result" else ["int", "double", "long"]),
                                             min_size=1, max_size=2, unique=True))]
        header = "template<typename T>"
    lead = draw(st.booleans())
    funcs = []
    for i, targs in enumerate(insts):
        T = targs[0]
        U = targs[-1]
        ret = None
        attrs = ""
        if shape == "arg":
            gen = [("T", "a0")]
        elif shape == "arg+plain":
            gen = ([("double", "lead")] if lead else []) + [("T", "a0"), ("int", "slot")]
        elif shape == "result":
            gen = [("int", "slot")]
            ret = ("T", dict(row="N", T=T, ctype=T, attrs=""))
        elif shape == "two":
            gen = [("T", "a0"), ("U", "a1")]
            ret = ("U", dict(row="N", T=U, ctype=U, attrs=""))
        else:
            gen = []
            ret = ("T *", dict(row="P", T=T, ctype="%s *" % T, attrs="+dimension(nx)", rank=1))
            attrs = " +dimension(nx)"
        conc = {"T": T, "U": U}
        params = [P(n, "N1", conc.get(g, g), "%s %s" % (conc.get(g, g), n)) for g, n in gen]
        gtexts = ["%s %s" % (g, n) for g, n in gen]
        if shape == "ptr-result":
            params.append(P("nx", "H1out", "int", "int *nx", "+intent(out)+hidden", "out"))
            gtexts.append("int *nx +intent(out)+hidden")
        suffix = ("_" + T) if len(targs) == 1 else "_%d" % i
        f = dict(name=name, fid=fid + i, cls=None, kind="func", params=params, ret=(ret[1] if ret else None), const=False,
                 suffix=None, calls=[],
                 tmpl=dict(header=header, inst="<%s>" % ", ".join(targs), index=i, ninst=len(insts), suffix=suffix, shape=shape,
                           generic_decl="%s %s(%s)%s" % (ret[0] if ret else "void", name, ", ".join(gtexts), attrs),
                           generic_proto="%s %s(%s)" % (ret[0] if ret else "void", name,
                                                        ", ".join(t.split(" +")[0] for t in gtexts)),
                           templated_result=ret is not None))
        for _ in range(draw(st.integers(2, 3))):
            if shape == "ptr-result":
                n = draw(st.sampled_from([1, 2, 3]))
                f["calls"].append(dict(inputs={}, outputs={"nx": n, "rv": dict(shape=[n], data=[draw(value_of(T, for_fortran)) for _j in range(n)])}))
            else:
                f["calls"].append(draw(call_vector(f, for_fortran)))
        funcs.append(f)
    return funcs


@st.composite
def default_func(draw, lang, fid, name, for_fortran=True):
    """tutorial.rst 'Optional arguments': trailing default values."""
    # 0-3 leading required arguments, 1-3 trailing defaults (tutorial.rst UseDefaultArguments: all defaulted)
    lead = draw(st.lists(st.sampled_from(["double", "int", "long", "bool", "double"]), min_size=0, max_size=3))
    params = []
    for j, T in enumerate(lead):
        params.append(P("a%d" % j, "N1" if T != "bool" else "B1", T, "%s a%d" % (T, j)))
    nd = draw(st.integers(1, 3))
    # (the declaration parser accepts a single literal or identifier as default value, no sign)
    choices = [("int", "3", 3), ("bool", "true", True), ("double", "1.5", 1.5), ("long", "7", 7), ("bool", "false", False),
               ("int", "0", 0), ("double", "0.0", 0.0)]
    for j in range(nd):
        T, text, val = draw(st.sampled_from(choices))
        p = P("d%d" % j, "N1" if T != "bool" else "B1", T, "%s d%d" % (T, j))
        p["default"] = text
        p["default_value"] = val
        params.append(p)
    rT = draw(st.sampled_from(["double", "int", "long"]))
    f = dict(name=name, fid=fid, cls=None, kind="func", params=params, ret=dict(row="N", T=rT, ctype=rT, attrs=""),
             const=False, suffix=None, calls=[], ndefault=nd)
    for nargs in range(len(lead), len(params) + 1):
        c = draw(call_vector(f, for_fortran))
        c["nargs"] = nargs
        f["calls"].append(c)
    return f


@st.composite
def klass(draw, lang, fid, name, for_fortran=True, results=None, types=None, rows=None):
    """classes.rst: constructors (overloaded), destructor, const / static methods, functions
    returning the class by pointer (+owner) and taking it by pointer / reference."""
    c = dict(name=name, ctors=[], methods=[], statics=[], makers=[], users=[], dtor_fid=None)
    nct = draw(st.integers(1, 2))
    explicit = draw(st.booleans())
    for i in range(nct):
        f = dict(name=name, fid=fid, cls=name, kind="ctor", params=[], ret=None, const=False,
                 suffix=("_default" if i == 0 else "_flag") if (explicit and nct > 1) else None, calls=[], overload_index=i, noverload=nct)
        if i == 1:
            f["params"] = [P("flag", "N1", "int", "int flag")]
        f["calls"] = [draw(call_vector(f, for_fortran)) for _ in range(2)]
        c["ctors"].append(f)
        fid += 1
    c["dtor_fid"] = fid
    fid += 1
    for i in range(draw(st.integers(1, 4))):
        f = draw(function(lang, fid, "method%d" % i, cls=name, kind="method", max_params=3, for_fortran=for_fortran,
                          allowed=[r for r in SIMPLE_ROWS if rows is None or r in rows], results=results, types=types))
        c["methods"].append(f)
        fid += 1
    if not for_fortran and rows is None and draw(st.booleans()):
        # read / write accessor pair: two methods that differ only in the trailing const, each with its own
        # function_suffix (classes.rst); the C function of the const declaration must reach the const overload
        for cst, suf in ((True, "_const"), (False, "_mut")):
            f = dict(name="both", fid=fid, cls=name, kind="method", params=[], ret=dict(row="N", T="int", ctype="int", attrs=""),
                     const=cst, suffix=suf, calls=[])
            f["calls"] = [draw(call_vector(f, for_fortran)) for _ in range(2)]
            c["methods"].append(f)
            fid += 1
    if draw(st.booleans()):
        f = draw(function(lang, fid, "smethod", cls=name, kind="smethod", max_params=2, for_fortran=for_fortran,
                          allowed=["N1", "B1"], results=results, types=types))
        c["statics"].append(f)
        fid += 1
    # Class1 *make(int flag) +owner(caller) ; Class1 *borrow() (library owned)
    mk = dict(name="make_obj", fid=fid, cls=None, kind="make", params=[P("flag", "N1", "int", "int flag")], ret=None,
              const=False, suffix=None, calls=[], owned=True, rclass=name)
    mk["calls"] = [draw(call_vector(mk, for_fortran)) for _ in range(2)]
    c["makers"].append(mk)
    fid += 1
    if rows is None:
        # a factory without ownership attribute (owner(library) is only Shroud's default): the object is a new
        # one on every call, and the caller may delete it through the destructor wrapper like `delete p` in C++
        fr = dict(name="fresh_obj", fid=fid, cls=None, kind="make", params=[P("flag", "N1", "int", "int flag")], ret=None,
                  const=False, suffix=None, calls=[], owned=True, fresh=True, rclass=name)
        fr["calls"] = [draw(call_vector(fr, for_fortran)) for _ in range(2)]
        c["makers"].append(fr)
        fid += 1
    bw = dict(name="borrow_obj", fid=fid, cls=None, kind="make", params=[], ret=None, const=False, suffix=None,
              calls=[dict(inputs={}, outputs={})] * 2, owned=False, rclass=name)
    c["makers"].append(bw)
    fid += 1
    us = dict(name="use_obj", fid=fid, cls=None, kind="use", const=False, suffix=None, ret=dict(row="N", T="int", ctype="int", attrs=""),
              params=[P("obj", "K1ptr", "object", "const %s *obj" % name), P("a1", "N1", "int", "int a1")], calls=[])
    us["calls"] = [draw(call_vector(us, for_fortran)) for _ in range(2)]
    c["users"].append(us)
    fid += 1
    ur = dict(name="use_ref", fid=fid, cls=None, kind="use", const=False, suffix=None, ret=None,
              params=[P("a0", "N1", "double", "double a0"), P("obj", "K1ref", "object", "const %s &obj" % name)], calls=[])
    ur["calls"] = [draw(call_vector(ur, for_fortran)) for _ in range(2)]
    c["users"].append(ur)
    return c


# ---------------------------------------------------------------------------
# YAML

def decl_text(f):
    ps = []
    for p in f["params"]:
        s = p["ctype"] + ((" " + p["attrs"]) if p["attrs"] else "")
        if p.get("default") is not None:
            s += " = " + p["default"]
        ps.append(s)
    r = f["ret"]
    head = (r["ctype"] if r else "void") + " " + f["name"]
    s = "%s(%s)" % (head, ", ".join(ps))
    if f.get("const"):
        s += " const"
    if r and r["attrs"]:
        s += " " + r["attrs"]
    return s


def lib_uses_enum(lib):
    fs = list(lib["funcs"])
    for c in lib.get("classes", []):
        fs += c["methods"] + c["statics"] + c["ctors"]
    return any(p.get("enum") for f in fs for p in f["params"]) or any((f.get("ret") or {}).get("enum") for f in fs)


def to_yaml(lib, options=None):
    import yaml
    decls = []

    def fdecl(f, text=None):
        d = {"decl": text or decl_text(f)}
        if f.get("suffix"):
            d["format"] = {"function_suffix": f["suffix"]}
        return d
    if lib_uses_enum(lib):
        decls.append({"decl": ENUM_DECL})
    for f in lib["funcs"]:
        if f.get("tmpl"):
            if f["tmpl"]["index"] == 0:
                grp = [g for g in lib["funcs"] if g.get("tmpl") and g["name"] == f["name"]]
                decls.append({"decl": f["tmpl"]["header"] + " " + f["tmpl"]["generic_decl"],
                              "cxx_template": [{"instantiation": g["tmpl"]["inst"]} for g in grp]})
            continue
        decls.append(fdecl(f))
    for c in lib.get("classes", []):
        inner = []
        for f in c["ctors"]:
            inner.append(fdecl(f, "%s(%s)" % (c["name"], ", ".join(p["ctype"] for p in f["params"]))))
        inner.append({"decl": "~%s()" % c["name"]})
        for f in c["methods"]:
            inner.append(fdecl(f))
        for f in c["statics"]:
            inner.append(fdecl(f, "static " + decl_text(f)))
        decls.append({"decl": "class " + c["name"], "declarations": inner})
        for f in c["makers"]:
            decls.append(fdecl(f, "%s *%s(%s)%s" % (c["name"], f["name"], ", ".join(p["ctype"] for p in f["params"]),
                                                      "" if f.get("fresh") else " +owner(caller)" if f["owned"] else " +owner(library)")))
        for f in c["users"]:
            decls.append(fdecl(f))
    doc = {"library": lib["name"], "language": lib["language"], "cxx_header": lib["cheader"],
           "options": dict({"wrap_python": False, "wrap_lua": False}, **(options or {})), "declarations": decls}
    return yaml.safe_dump(doc, sort_keys=False, width=1000)


# ---------------------------------------------------------------------------
# canonical value text

def fbits(v):
    return "%016x" % struct.unpack("<Q", struct.pack("<d", float(v)))[0]


def esc(s):
    return "%d:%s" % (len(s), "".join(c if c != " " else "_" for c in s))


def vtext(T, v):
    if T in INT_TYPES:
        return "i %d" % v
    if T in FLT_TYPES:
        if T == "float":
            v = struct.unpack("<f", struct.pack("<f", v))[0]
        return "d " + fbits(v)
    if T == "bool":
        return "b %d" % (1 if v else 0)
    if T == "char":
        return "c %d" % ord(v)
    raise ValueError(T)


def atext(T, vals):
    if T in FLT_TYPES:
        if T == "float":
            vals = [struct.unpack("<f", struct.pack("<f", v))[0] for v in vals]
        return "ad %d [%s]" % (len(vals), " ".join(fbits(v) for v in vals))
    return "ai %d [%s]" % (len(vals), " ".join("%d" % v for v in vals))


# ---------------------------------------------------------------------------
# reference model: expected stream

def expected_call(f, call, site, front, serial_of=None, op=None):
    """Lines the combined stream must contain for one call.  front = 'c' | 'fortran'."""
    out = ["C %d" % site, "E %d" % f["fid"]]
    if op is not None and op["kind"] == "mcall":
        out.append("T %d" % serial_of[op["obj"]])          # the right object as 'this'
    ins, outs = call["inputs"], call["outputs"]
    for idx, p in enumerate(f["params"]):
        row, T, nm = p["row"], p["T"], p["name"]
        if "nargs" in call and idx >= call["nargs"]:
            out.append("A %d %s" % (idx, vtext(T, p["default_value"])))      # supplied by the library's own default
        elif row in ("K1ptr", "K1ref"):
            out.append("A %d o %d" % (idx, serial_of[op["objs"][nm]]))
        elif p.get("implied_of"):
            out.append("A %d i %d" % (idx, len(ins[p["implied_of"]])))     # implied = size of the named array
        elif p.get("size_for") or row in ("N1", "N2in", "N2inout", "N2ref", "B1", "B1inout", "S1c"):
            out.append("A %d %s" % (idx, vtext(T, ins[nm])))
        elif row in ("S1in", "S3in", "S3val", "S3inout", "S1inout"):
            text = ins[nm]["text"]
            if front == "fortran":
                text = text.rstrip(" ")        # trailing blanks trimmed, NUL terminated / trimmed length
            out.append("A %d s %s" % (idx, esc(text)))
        elif row in ("N3in", "N3inout", "V1in", "V1inout", "V1inoutalloc"):
            out.append("A %d %s" % (idx, atext(T, ins[nm])))
    r = f["ret"]
    if r and r["row"] == "P":
        out.append("O rv " + atext("int", outs["rv"]["shape"]))
        out.append("O rv " + atext(r["T"], outs["rv"]["data"]))
    elif r and r["row"] == "V":
        out.append("O rv " + atext(r["T"], outs["rv"]))
    elif r:
        out.append("O rv " + obs_text(r["T"], r["row"], outs["rv"], front, r.get("flen")))
    for idx, p in enumerate(f["params"]):
        nm = p["name"]
        if nm in outs:
            if p["row"] == "H1out":
                continue            # hidden: not part of the Fortran API
            if p["row"] == "P2out":
                out.append("O %d %s" % (idx, atext("int", outs[nm]["shape"])))
                out.append("O %d %s" % (idx, atext(p["T"], outs[nm]["data"])))
            elif p["row"] in ("N3inout", "N3out", "V1outalloc", "V1inoutalloc"):
                out.append("O %d %s" % (idx, atext(p["T"], outs[nm])))
            elif p["row"] in ("V1out", "V1inout"):
                # fixed-size caller array: the first min(extent, vector size) values are copied back
                out.append("O %d %s" % (idx, atext(p["T"], outs[nm][:vector_extent(p, call)])))
            elif p["T"] in ("string",) or p["row"] in ("S1out", "S1inout"):
                out.append("O %d %s" % (idx, obs_text(p["T"], p["row"], outs[nm], front, outs[nm]["flen"])))
            else:
                out.append("O %d %s" % (idx, vtext(p["T"], outs[nm])))
    return out


def vector_extent(p, call):
    """Extent of the caller's (fixed-size) Fortran array for a V1out / V1inout argument."""
    if p["row"] == "V1out":
        return call["outputs"][p["name"] + "#extent"]
    return len(call["inputs"][p["name"]])


def obs_text(T, row, v, front, flen):
    if row in ("N", "B", "C"):
        return vtext(T, v)
    text = v["text"]
    if front == "fortran":
        if row in ("S1", "S3", "S3ref"):
            return "s " + esc(text)                      # allocatable: exactly the C string's length
        # fixed length Fortran variable: truncated or blank padded
        return "s " + esc(text[:flen].ljust(flen))
    return "s " + esc(text)


def call_plan(lib):
    """Deterministic order of plain function calls: round robin over the call vectors."""
    plan = []
    k = 0
    while True:
        any_ = False
        for f in lib["funcs"]:
            if k < len(f["calls"]):
                plan.append((f, k))
                any_ = True
        if not any_:
            break
        k += 1
    return plan


def plan(lib):
    """Operation list executed by every driver: plain calls, then for each class a scripted
    life cycle (construct with every constructor, call every method on every object, hand the
    objects to free functions, obtain owned / borrowed objects, destroy what the caller owns)."""
    ops = [dict(kind="call", f=f, k=k) for f, k in call_plan(lib)]
    nobj = 0
    for c in lib.get("classes", []):
        objs = []
        for f in c["ctors"]:
            for k in range(len(f["calls"])):
                ops.append(dict(kind="new", f=f, k=k, obj=nobj, cls=c["name"]))
                objs.append(nobj)
                nobj += 1
        for f in c["methods"]:
            for k in range(len(f["calls"])):
                ops.append(dict(kind="mcall", f=f, k=k, obj=objs[k % len(objs)], cls=c["name"]))
        for f in c["statics"]:
            for k in range(len(f["calls"])):
                ops.append(dict(kind="call", f=f, k=k, cls=c["name"]))
        made = []
        extra = {}
        for f in c["makers"]:
            for k in range(len(f["calls"])):
                ops.append(dict(kind="make", f=f, k=k, obj=nobj, cls=c["name"]))
                if f["owned"]:
                    made.append(nobj)
                else:
                    made.append(None)
                # a method call through the returned handle (the library's per-function call
                # counter continues: this is call number len(calls)+j of that method)
                m = c["methods"][0]
                extra[m["fid"]] = extra.get(m["fid"], 0) + 1
                ops.append(dict(kind="mcall", f=m, k=(len(m["calls"]) + extra[m["fid"]] - 1) % len(m["calls"]),
                                obj=nobj, cls=c["name"]))
                nobj += 1
        for f in c["users"]:
            for k in range(len(f["calls"])):
                ops.append(dict(kind="call", f=f, k=k, objs={"obj": objs[(k + 1) % len(objs)]}, cls=c["name"]))
        for o in objs + [m for m in made if m is not None]:
            ops.append(dict(kind="del", obj=o, cls=c["name"], fid=c["dtor_fid"]))
    return ops


def expected_stream(lib, front):
    """Reference model of the whole run."""
    lines = []
    serial_of = {}     # driver object variable -> library serial
    nserial = 0
    borrowed_serial = None
    live = 0
    for site, op in enumerate(plan(lib)):
        kind = op["kind"]
        if kind == "del":
            lines += ["C %d" % site, "E %d" % op["fid"], "DEL %d" % serial_of[op["obj"]]]
            live -= 1
            continue
        f, call = op["f"], op["f"]["calls"][op["k"]]
        ec = expected_call(f, call, site, front, serial_of, op)
        if kind == "new":
            nserial += 1
            live += 1
            serial_of[op["obj"]] = nserial
            # C site, E fid, args..., NEW serial
            ec = ec + ["NEW %d" % nserial]
        elif kind == "make":
            if f["owned"]:
                nserial += 1
                live += 1
                serial_of[op["obj"]] = nserial
                ec = ec + ["NEW %d" % nserial, "O rv o %d" % nserial]
            else:
                if borrowed_serial is None:
                    nserial += 1
                    live += 1
                    borrowed_serial = nserial
                    ec = ec + ["NEW %d" % nserial]
                serial_of[op["obj"]] = borrowed_serial
                ec = ec + ["O rv o %d" % borrowed_serial]
        lines += ec
    lines.append("LIVE %d" % live)
    return lines


# ---------------------------------------------------------------------------
# subject library

SUPPORT_H = r"""
#ifndef VF_SUPPORT_H
#define VF_SUPPORT_H
#ifdef __cplusplus
extern "C" {
#endif
void vf_callsite(int site);
void vf_enter(int fid);
void vf_ai(int idx, long long v);
void vf_au(int idx, unsigned long long v);
void vf_ad(int idx, double v);
void vf_ab(int idx, int v);
void vf_ac(int idx, int v);
void vf_as(int idx, const char *s, int n);
void vf_aai(int idx, int n, const long long *v);
void vf_aad(int idx, int n, const double *v);
void vf_oi(int slot, long long v);
void vf_ou(int slot, unsigned long long v);
void vf_od(int slot, double v);
void vf_ob(int slot, int v);
void vf_oc(int slot, int v);
void vf_os(int slot, const char *s, int n);
void vf_oai(int slot, int n, const long long *v);
void vf_oad(int slot, int n, const double *v);
void vf_note(const char *s);
void vf_live_report(void);
#ifdef __cplusplus
}
#endif
#endif
"""

SUPPORT_C = r"""
#include <stdio.h>
#include <string.h>
#include "vf_support.h"
static void slotname(int slot) { if (slot < 0) fputs("O rv ", stdout); else printf("O %d ", slot); }
static void str(const char *s, int n) {
    int i;
    if (s == NULL) { fputs("s NULL", stdout); return; }
    if (n < 0) n = (int) strlen(s);
    printf("s %d:", n);
    for (i = 0; i < n; i++) { unsigned char c = (unsigned char) s[i]; if (c == ' ') putchar('_'); else if (c == 0) fputs("\\0", stdout); else putchar(c); }
}
static void dbl(double v) { unsigned long long u; memcpy(&u, &v, 8); printf("d %016llx", u); }
void vf_callsite(int site) { printf("C %d\n", site); fflush(stdout); }
void vf_enter(int fid) { printf("E %d\n", fid); fflush(stdout); }
void vf_ai(int idx, long long v) { printf("A %d i %lld\n", idx, v); fflush(stdout); }
void vf_au(int idx, unsigned long long v) { printf("A %d i %llu\n", idx, v); fflush(stdout); }
void vf_ad(int idx, double v) { printf("A %d ", idx); dbl(v); putchar('\n'); fflush(stdout); }
void vf_ab(int idx, int v) { printf("A %d b %d\n", idx, v ? 1 : 0); fflush(stdout); }
void vf_ac(int idx, int v) { printf("A %d c %d\n", idx, v); fflush(stdout); }
void vf_as(int idx, const char *s, int n) { printf("A %d ", idx); str(s, n); putchar('\n'); fflush(stdout); }
void vf_aai(int idx, int n, const long long *v) { int i; printf("A %d ai %d [", idx, n); for (i = 0; i < n; i++) printf(i ? " %lld" : "%lld", v[i]); puts("]"); fflush(stdout); }
void vf_aad(int idx, int n, const double *v) { int i; printf("A %d ad %d [", idx, n); for (i = 0; i < n; i++) { unsigned long long u; memcpy(&u, &v[i], 8); printf(i ? " %016llx" : "%016llx", u); } puts("]"); fflush(stdout); }
void vf_oi(int slot, long long v) { slotname(slot); printf("i %lld\n", v); fflush(stdout); }
void vf_ou(int slot, unsigned long long v) { slotname(slot); printf("i %llu\n", v); fflush(stdout); }
void vf_od(int slot, double v) { slotname(slot); dbl(v); putchar('\n'); fflush(stdout); }
void vf_ob(int slot, int v) { slotname(slot); printf("b %d\n", v ? 1 : 0); fflush(stdout); }
void vf_oc(int slot, int v) { slotname(slot); printf("c %d\n", v); fflush(stdout); }
void vf_os(int slot, const char *s, int n) { slotname(slot); str(s, n); putchar('\n'); fflush(stdout); }
void vf_oai(int slot, int n, const long long *v) { int i; slotname(slot); printf("ai %d [", n); for (i = 0; i < n; i++) printf(i ? " %lld" : "%lld", v[i]); puts("]"); fflush(stdout); }
void vf_oad(int slot, int n, const double *v) { int i; slotname(slot); printf("ad %d [", n); for (i = 0; i < n; i++) { unsigned long long u; memcpy(&u, &v[i], 8); printf(i ? " %016llx" : "%016llx", u); } puts("]"); fflush(stdout); }
void vf_note(const char *s) { printf("N %s\n", s); fflush(stdout); }
"""


def c_lit(T, v):
    if T in INT_TYPES:
        _c, _k, bits, signed = INT_TYPES[T]
        if signed:
            if v == -(1 << (bits - 1)):
                return "((%s)(-%dLL - 1))" % (T, -(v + 1))
            return "((%s)%dLL)" % (T, v)
        return "((%s)%dULL)" % (T, v)
    if T in FLT_TYPES:
        if v == 0.0 and str(v).startswith("-"):
            return "(-0.0f)" if T == "float" else "(-0.0)"
        return "((%s)%s)" % (T, repr(float(v)))
    if T == "bool":
        return "1" if v else "0"
    if T == "char":
        return "'%s'" % v
    raise ValueError(T)


def c_str(s):
    return '"' + s.replace("\\", "\\\\").replace('"', '\\"') + '"'


def log_scalar(T, idx, expr):
    if T in INT_TYPES:
        return ("vf_ai(%d, (long long)(%s));" if INT_TYPES[T][3] else "vf_au(%d, (unsigned long long)(%s));") % (idx, expr)
    if T in FLT_TYPES:
        return "vf_ad(%d, (double)(%s));" % (idx, expr)
    if T == "bool":
        return "vf_ab(%d, (%s) ? 1 : 0);" % (idx, expr)
    if T == "char":
        return "vf_ac(%d, (int)(unsigned char)(%s));" % (idx, expr)
    raise ValueError(T)


def log_array(T, idx, ptr, n):
    if T in FLT_TYPES:
        return ["{ double vf_t[64]; int vf_i; for (vf_i = 0; vf_i < (%s) && vf_i < 64; vf_i++) vf_t[vf_i] = (double) (%s)[vf_i]; vf_aad(%d, %s, vf_t); }" % (n, ptr, idx, n)]
    return ["{ long long vf_t[64]; int vf_i; for (vf_i = 0; vf_i < (%s) && vf_i < 64; vf_i++) vf_t[vf_i] = (long long) (%s)[vf_i]; vf_aai(%d, %s, vf_t); }" % (n, ptr, idx, n)]


def body_lines(f, this=False):
    """Statements of a subject function: log, then produce the scripted outputs."""
    body = ["    static int vf_k = 0;", "    int vf_call = vf_k++;", "    vf_enter(%d);" % f["fid"]]
    if this:
        body.append("    vf_this(this->vf_serial);")
    ncall = max(1, len(f["calls"]))
    for idx, p in enumerate(f["params"]):
        row, T, nm = p["row"], p["T"], p["name"]
        if row == "K1ptr":
            body.append("    vf_ao(%d, %s->vf_serial);" % (idx, nm))
        elif row == "K1ref":
            body.append("    vf_ao(%d, %s.vf_serial);" % (idx, nm))
        elif p.get("implied_of") or p.get("size_for") or row in ("N1", "B1", "S1c"):
            body.append("    " + log_scalar(T, idx, nm))
        elif row in ("N2in", "N2inout", "B1inout"):
            body.append("    " + log_scalar(T, idx, "*" + nm))
        elif row == "N2ref":
            body.append("    " + log_scalar(T, idx, nm))
        elif row in ("S1in", "S1inout"):
            body.append("    vf_as(%d, %s, -1);" % (idx, nm))
        elif row in ("V1in", "V1inout", "V1inoutalloc"):
            body += ["    " + l for l in log_array(T, idx, nm + ".data()", "(int) %s.size()" % nm)]
        elif row in ("S3in", "S3val", "S3inout"):
            body.append("    vf_as(%d, %s.data(), (int) %s.size());" % (idx, nm, nm))
        elif row in ("N3in", "N3inout"):
            body += ["    " + l for l in log_array(T, idx, nm, p["companion"])]
    for idx, p in enumerate(f["params"]):
        row, T, nm = p["row"], p["T"], p["name"]
        vals = [c["outputs"].get(nm) for c in f["calls"]]
        if not vals or all(v is None for v in vals):
            continue
        if row == "P2out":
            body += pointer_table(T, [v["data"] for v in vals], ncall, "*%s = vf_store;" % nm)
        elif row in ("N2out", "N2inout", "B1out", "B1inout", "H1out"):
            body.append("    { static const %s vf_tab[] = {%s}; *%s = vf_tab[vf_call %% %d]; }"
                        % (T, ", ".join(c_lit(T, v) for v in vals), nm, ncall))
        elif row in ("N2ref", "N2refout"):
            body.append("    { static const %s vf_tab[] = {%s}; %s = vf_tab[vf_call %% %d]; }"
                        % (T, ", ".join(c_lit(T, v) for v in vals), nm, ncall))
        elif row in VECTOR_ROWS:
            flat = [x for v in vals for x in v]
            offs = []
            o = 0
            for v in vals:
                offs.append(o)
                o += len(v)
            body.append("    { static const %s vf_tab[] = {%s}; static const int vf_off[] = {%s}; static const int vf_len[] = {%s};"
                        % (T, ", ".join(c_lit(T, x) for x in flat) or "0", ", ".join(map(str, offs)), ", ".join(str(len(v)) for v in vals)))
            body.append("      %s.assign(vf_tab + vf_off[vf_call %% %d], vf_tab + vf_off[vf_call %% %d] + vf_len[vf_call %% %d]); }"
                        % (nm, ncall, ncall, ncall))
        elif row in ("S1out", "S1inout"):
            body.append("    { static const char *vf_tab[] = {%s}; strcpy(%s, vf_tab[vf_call %% %d]); }"
                        % (", ".join(c_str(v["text"]) for v in vals), nm, ncall))
        elif row in ("S3out", "S3inout"):
            body.append("    { static const char *vf_tab[] = {%s}; %s = vf_tab[vf_call %% %d]; }"
                        % (", ".join(c_str(v["text"]) for v in vals), nm, ncall))
        elif row in ("N3inout", "N3out"):
            flat = [x for v in vals for x in v]
            offs = []
            o = 0
            for v in vals:
                offs.append(o)
                o += len(v)
            body.append("    { static const %s vf_tab[] = {%s}; static const int vf_off[] = {%s}; static const int vf_len[] = {%s}; int vf_j;"
                        % (T, ", ".join(c_lit(T, x) for x in flat) or "0", ", ".join(map(str, offs)), ", ".join(str(len(v)) for v in vals)))
            body.append("      for (vf_j = 0; vf_j < vf_len[vf_call %% %d]; vf_j++) %s[vf_j] = vf_tab[vf_off[vf_call %% %d] + vf_j]; }" % (ncall, nm, ncall))
    r = f["ret"]
    if r:
        vals = [c["outputs"]["rv"] for c in f["calls"]]
        if r.get("enum"):
            body.append("    { static const int vf_tab[] = {%s}; return (%s) vf_tab[vf_call %% %d]; }"
                        % (", ".join("%d" % v for v in vals), ENUM_NAME, ncall))
        elif r["row"] in ("N", "B", "C"):
            body.append("    { static const %s vf_tab[] = {%s}; return vf_tab[vf_call %% %d]; }"
                        % (r["T"], ", ".join(c_lit(r["T"], v) for v in vals), ncall))
        elif r["row"] == "P":
            body += pointer_table(r["T"], [v["data"] for v in vals], ncall, "return vf_store;")
        elif r["row"] == "V":
            flat = [x for v in vals for x in v]
            offs = []
            o = 0
            for v in vals:
                offs.append(o)
                o += len(v)
            body.append("    { static const %s vf_tab[] = {%s}; static const int vf_off[] = {%s}; static const int vf_len[] = {%s};"
                        % (r["T"], ", ".join(c_lit(r["T"], x) for x in flat) or "0", ", ".join(map(str, offs)), ", ".join(str(len(v)) for v in vals)))
            body.append("      return std::vector<%s>(vf_tab + vf_off[vf_call %% %d], vf_tab + vf_off[vf_call %% %d] + vf_len[vf_call %% %d]); }"
                        % (r["T"], ncall, ncall, ncall))
        elif r["row"] in ("S1", "S1len"):
            body.append("    { static const char *vf_tab[] = {%s}; return vf_tab[vf_call %% %d]; }"
                        % (", ".join(c_str(v["text"]) for v in vals), ncall))
        elif r["row"] == "S3":
            body.append("    { static const char *vf_tab[] = {%s}; return std::string(vf_tab[vf_call %% %d]); }"
                        % (", ".join(c_str(v["text"]) for v in vals), ncall))
        else:
            body.append("    { static const std::string vf_tab[] = {%s}; return vf_tab[vf_call %% %d]; }"
                        % (", ".join("std::string(%s)" % c_str(v["text"]) for v in vals), ncall))
    return body


def pointer_table(T, lists, ncall, finish):
    """Copy the scripted values of this call into static storage owned by the library and hand out its address."""
    flat = [x for v in lists for x in v]
    offs = []
    o = 0
    for v in lists:
        offs.append(o)
        o += len(v)
    return ["    { static const %s vf_tab[] = {%s}; static const int vf_off[] = {%s}; static const int vf_len[] = {%s};"
            % (T, ", ".join(c_lit(T, x) for x in flat) or "0", ", ".join(map(str, offs)), ", ".join(str(len(v)) for v in lists)),
            "      static %s vf_store[32]; int vf_j;" % T,
            "      for (vf_j = 0; vf_j < vf_len[vf_call %% %d]; vf_j++) vf_store[vf_j] = vf_tab[vf_off[vf_call %% %d] + vf_j];" % (ncall, ncall),
            "      %s }" % finish]


def subject_sources(lib):
    """-> {filename: text}: header, implementation, support."""
    cxx = lib["language"] == "c++"
    hdr = ["#ifndef XLIB_H", "#define XLIB_H", "#include <stddef.h>", "#include <stdint.h>"]
    if cxx:
        hdr += ["#include <string>", "#include <vector>"]
    else:
        hdr += ["#include <stdbool.h>"]
    impl = ['#include "%s"' % lib["cheader"], '#include "vf_support.h"', "#include <string.h>", "#include <stdio.h>"]
    if cxx:
        impl.append("""
static int vf_next_serial = 0;
static int vf_live_count = 0;
static int vf_obj_new(void) { ++vf_live_count; ++vf_next_serial; printf("NEW %d\\n", vf_next_serial); fflush(stdout); return vf_next_serial; }
static void vf_obj_del(int serial) { --vf_live_count; printf("DEL %d\\n", serial); fflush(stdout); }
static void vf_this(int serial) { printf("T %d\\n", serial); fflush(stdout); }
static void vf_ao(int idx, int serial) { printf("A %d o %d\\n", idx, serial); fflush(stdout); }
extern "C" void vf_live_report(void) { printf("LIVE %d\\n", vf_live_count); fflush(stdout); }
""")
    else:
        impl.append('void vf_live_report(void) { printf("LIVE 0\\n"); fflush(stdout); }')
    if cxx and lib_uses_enum(lib):
        hdr.append(ENUM_DECL + ";")
    for c in lib.get("classes", []):
        nm = c["name"]
        hdr.append("class %s {\npublic:" % nm)
        hdr.append("    int vf_serial;")
        hdr.append("    %s(int flag, int quiet);   // used by the library itself, not wrapped" % nm)
        impl.append("%s::%s(int flag, int quiet) { (void) flag; (void) quiet; vf_serial = vf_obj_new(); }" % (nm, nm))
        for f in c["ctors"]:
            sig = "%s(%s)" % (nm, ", ".join(p["ctype"] for p in f["params"]))
            hdr.append("    %s;" % sig)
            impl.append("%s::%s\n{\n%s\n    vf_serial = vf_obj_new();\n}" % (nm, sig, "\n".join(body_lines(f))))
        hdr.append("    ~%s();" % nm)
        impl.append("%s::~%s()\n{\n    vf_enter(%d);\n    vf_obj_del(vf_serial);\n}" % (nm, nm, c["dtor_fid"]))
        for f in c["methods"]:
            hdr.append("    %s;" % decl_text_plain(f))
            r = f["ret"]
            impl.append("%s %s::%s(%s)%s\n{\n%s\n}" % (r["ctype"] if r else "void", nm, f["name"],
                                                       ", ".join(p["ctype"] for p in f["params"]),
                                                       " const" if f.get("const") else "", "\n".join(body_lines(f, this=True))))
        for f in c["statics"]:
            hdr.append("    static %s;" % decl_text_plain(f))
            r = f["ret"]
            impl.append("%s %s::%s(%s)\n{\n%s\n}" % (r["ctype"] if r else "void", nm, f["name"],
                                                     ", ".join(p["ctype"] for p in f["params"]), "\n".join(body_lines(f))))
        hdr.append("};")
        for f in c["makers"]:
            sig = "%s *%s(%s)" % (nm, f["name"], ", ".join(p["ctype"] for p in f["params"]))
            hdr.append(sig + ";")
            if f["owned"]:
                impl.append("%s\n{\n%s\n    return new %s(0, 1);\n}" % (sig, "\n".join(body_lines(f)), nm))
            else:
                impl.append("%s\n{\n%s\n    static %s *vf_p = NULL;\n    if (vf_p == NULL) vf_p = new %s(0, 1);\n    return vf_p;\n}"
                            % (sig, "\n".join(body_lines(f)), nm, nm))
        for f in c["users"]:
            hdr.append(decl_text_plain(f) + ";")
            impl.append("%s\n{\n%s\n}" % (decl_text_plain(f), "\n".join(body_lines(f))))
        hdr.append('extern "C" void vf_oo_%s(int slot, void *p);' % nm)
        impl.append('extern "C" void vf_oo_%s(int slot, void *p) { if (slot < 0) printf("O rv o %%d\\n", ((%s *) p)->vf_serial); else printf("O %%d o %%d\\n", slot, ((%s *) p)->vf_serial); fflush(stdout); }' % (nm, nm, nm))
    for f in lib["funcs"]:
        proto = decl_text_plain(f)
        if f.get("tmpl"):
            # the template is declared once; each instantiation the YAML lists is an explicit specialisation
            # holding the scripted body of that instantiation
            t = f["tmpl"]
            if t["index"] == 0:
                hdr.append("%s %s;" % (t["header"], t["generic_proto"]))
            r = f["ret"]
            spec = "template<> %s %s%s(%s)" % (r["ctype"] if r else "void", f["name"], t["inst"],
                                               ", ".join(p["ctype"] for p in f["params"]))
            hdr.append(spec + ";")
            impl.append("%s\n{\n%s\n}" % (spec, "\n".join(body_lines(f))))
            continue
        hdr.append(decl_text_plain(f, defaults=True) + ";")
        impl.append("%s\n{\n%s\n}" % (proto, "\n".join(body_lines(f))))
    hdr.append("#endif")
    ext = "cpp" if cxx else "c"
    return {lib["cheader"]: "\n".join(hdr) + "\n", "xlib." + ext: "\n\n".join(impl) + "\n",
            "vf_support.h": SUPPORT_H, "vf_support.c": SUPPORT_C}


def decl_text_plain(f, defaults=False):
    ps = [p["ctype"] + ((" = " + p["default"]) if defaults and p.get("default") is not None else "") for p in f["params"]]
    r = f["ret"]
    return "%s %s(%s)%s" % (r["ctype"] if r else "void", f["name"], ", ".join(ps) if ps else ("void" if True else ""),
                            " const" if f.get("const") else "")
