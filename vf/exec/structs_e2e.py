"""Struct arguments and results, executed (C01 Fortran front, C02 C front).

struct.rst / struct.yaml: a struct of scalar members (one-line form or a
declarations: list whose members may carry options of their own) and the six
ways struct.yaml passes it:

    double sumByValue(Rec arg)                  by value
    double sumPtr(const Rec *arg)               pointer, in
    void   fillOut(Rec *arg +intent(out), int seed)
    void   bumpInOut(Rec *arg +intent(inout))
    Rec    makeByValue(int seed)                result by value
    Rec   *getPtr(int seed)                     pointer to library storage

Hypothesis draws the struct and a history of calls with member values; a driver
written against the documented API (C: struct {C_prefix}Rec and the wrapper
functions, Fortran: type(rec) and the module procedures) performs it; the
subject library prints every member it receives, the driver every member it
gets back; a Python model predicts the whole stream.
"""
import os
import shutil
import struct as _struct
import tempfile

from hypothesis import strategies as st

from .. import core, shroud_run, smallgen
from . import drivers

TYPES = {"int": ("integer(C_INT)", "%d", "int"), "long": ("integer(C_LONG)", "%ld", "long"),
         "double": ("real(C_DOUBLE)", None, "double"), "float": ("real(C_FLOAT)", None, "float"),
         "short": ("integer(C_SHORT)", "%d", "int")}
OPS = ["sumByValue", "sumPtr", "fillOut", "bumpInOut", "makeByValue", "getPtr"]
PREFIX = "STL_"


def is_float(T):
    return T in ("double", "float")


@st.composite
def value(draw, T):
    if is_float(T):
        return draw(st.sampled_from([0.0, 0.25, -1.5, 2.75, 100.5, -0.125, 3.0, 42.0, 1024.25]))
    if T == "short":
        return draw(st.sampled_from([0, 1, -1, 7, 300, -32767, 32767]))
    return draw(st.sampled_from([0, 1, -1, 7, 42, 1000, -2147483647, 2147483647, 65536]))


@st.composite
def case(draw, lang=None, member_opt=None):
    lang = lang or draw(st.sampled_from(["c++", "c"]))
    fields = [(draw(st.sampled_from(sorted(TYPES))), "f%d" % i) for i in range(draw(st.integers(2, 6)))]
    form = "list" if member_opt else draw(st.sampled_from(["line", "list", "list"]))
    member_options = {}
    if member_opt:
        # a member with options of its own: whatever is switched off for it, the struct keeps its layout
        # (not the last member: what follows it shows a shifted layout)
        k = draw(st.integers(0, len(fields) - 2))
        member_options[fields[k][1]] = {member_opt: False}
    calls = []
    for _ in range(draw(st.integers(3, 8))):
        op = draw(st.sampled_from(OPS))
        c = dict(op=op, seed=draw(st.integers(0, 9)))
        c["vals"] = [draw(value(T)) for T, _n in fields]
        c["rv"] = draw(st.sampled_from([0.5, -2.25, 7.0, 1000.125]))
        calls.append(c)
    return dict(lang=lang, fields=fields, form=form, member_options=member_options, calls=calls)


def lib_value(T, seed, j):
    """What the library writes into member j for a given seed argument."""
    v = seed * 10 + j + 1
    return (v + 0.25) if is_float(T) else v


def bump(T, v):
    if is_float(T):
        return v + 1.5
    return v + 1 if v < 30000 else v - 1


def yaml_text(cs, options=None):
    import yaml
    if cs["form"] == "line":
        sdecl = {"decl": "struct Rec { %s };" % " ".join("%s %s;" % f for f in cs["fields"])}
    else:
        members = []
        for T, n in cs["fields"]:
            m = {"decl": "%s %s" % (T, n)}
            if n in cs["member_options"]:
                m["options"] = dict(cs["member_options"][n])
            members.append(m)
        sdecl = {"decl": "struct Rec", "declarations": members}
    decls = [sdecl,
             {"decl": "double sumByValue(Rec arg)"},
             {"decl": "double sumPtr(const Rec *arg)"},
             {"decl": "void fillOut(Rec *arg +intent(out), int seed)"},
             {"decl": "void bumpInOut(Rec *arg +intent(inout))"},
             {"decl": "Rec makeByValue(int seed)"},
             {"decl": "Rec *getPtr(int seed)"}]
    doc = {"library": "StLib", "language": cs["lang"], "cxx_header": "stlib.h", "format": {"C_prefix": PREFIX},
           "options": dict({"wrap_python": False, "wrap_lua": False}, **(options or {})), "declarations": decls}
    return yaml.safe_dump(doc, sort_keys=False, width=1000)


def fmt_c(T, expr):
    if is_float(T):
        return '"%%.17g", (double)(%s)' % expr
    return '"%%ld", (long)(%s)' % expr


def subject(cs):
    fields = cs["fields"]
    hdr = ["#ifndef STLIB_H", "#define STLIB_H", "struct Rec { %s };" % " ".join("%s %s;" % f for f in fields),
           "typedef struct Rec Rec;",
           "double sumByValue(Rec arg);", "double sumPtr(const Rec *arg);", "void fillOut(Rec *arg, int seed);",
           "void bumpInOut(Rec *arg);", "Rec makeByValue(int seed);", "Rec *getPtr(int seed);",
           "#ifdef __cplusplus", 'extern "C"', "#endif", "void vf_next_rv(double v);", "#endif"]

    def log(tag, acc):
        return "\n".join('    printf("%s %s "); printf(%s); printf("\\n");' % (tag, n, fmt_c(T, acc + n)) for T, n in fields)

    def fill(acc):
        return "\n".join("    %s%s = (%s)(%s);" % (acc, n, T, ("seed * 10 + %d + 0.25" % (j + 1)) if is_float(T) else ("seed * 10 + %d" % (j + 1)))
                         for j, (T, n) in enumerate(fields))
    bumps = "\n".join("    arg->%s = %s;" % (n, ("arg->%s + 1.5" % n) if is_float(T) else ("(arg->%s < 30000) ? arg->%s + 1 : arg->%s - 1" % (n, n, n)))
                      for T, n in fields)
    impl = ['#include "stlib.h"', "#include <stdio.h>", "static double vf_rv = 0.0;",
            "void vf_next_rv(double v) { vf_rv = v; }",
            "double sumByValue(Rec arg)\n{\n    printf(\"E sumByValue\\n\");\n%s\n    fflush(stdout);\n    return vf_rv;\n}" % log("IN", "arg."),
            "double sumPtr(const Rec *arg)\n{\n    printf(\"E sumPtr\\n\");\n%s\n    fflush(stdout);\n    return vf_rv;\n}" % log("IN", "arg->"),
            "void fillOut(Rec *arg, int seed)\n{\n    printf(\"E fillOut %%d\\n\", seed);\n%s\n    fflush(stdout);\n}" % fill("arg->"),
            "void bumpInOut(Rec *arg)\n{\n    printf(\"E bumpInOut\\n\");\n%s\n%s\n    fflush(stdout);\n}" % (log("IN", "arg->"), bumps),
            "Rec makeByValue(int seed)\n{\n    Rec r;\n    Rec *arg = &r;\n    printf(\"E makeByValue %%d\\n\", seed);\n%s\n    fflush(stdout);\n    return r;\n}" % fill("arg->"),
            "Rec *getPtr(int seed)\n{\n    static Rec r;\n    Rec *arg = &r;\n    printf(\"E getPtr %%d\\n\", seed);\n%s\n    fflush(stdout);\n    return &r;\n}" % fill("arg->")]
    return "\n".join(hdr) + "\n", "\n\n".join(impl) + "\n"


def c_lit(T, v):
    if is_float(T):
        return repr(float(v)) + ("f" if T == "float" else "")
    if v == -2147483647:
        return "(-2147483647)"
    return "%d%s" % (v, "L" if T == "long" else "")


def c_driver(cs):
    """C driver against the generated header (language c++ library: the wrappers and the C copy of the struct)."""
    fields = cs["fields"]
    sname = PREFIX + "rec"          # {C_prefix}{C_name_scope}{struct name, lower case} (struct.rst, reference struct-cxx)
    out = ["#include <stdio.h>", '#include "wrapStLib.h"', "void vf_next_rv(double v);", "int main(void)", "{"]

    def show(acc):
        return ['    printf("OUT %s "); printf(%s); printf("\\n");' % (n, fmt_c(T, acc + n)) for T, n in fields]
    for k, c in enumerate(cs["calls"]):
        out.append('    printf("C %d\\n"); fflush(stdout);' % k)
        out.append("    {")
        op = c["op"]
        init = ["        r.%s = %s;" % (n, c_lit(T, v)) for (T, n), v in zip(fields, c["vals"])]
        if op in ("sumByValue", "sumPtr"):
            out += ["        %s r; double rv;" % sname] + init + ["        vf_next_rv(%r);" % c["rv"],
                    "        rv = %s%s(%sr);" % (PREFIX, drivers.un_camel(op), "" if op == "sumByValue" else "&"),
                    '        printf("RV %.17g\\n", rv);']
        elif op == "fillOut":
            out += ["        %s r;" % sname] + ["        r.%s = 0;" % n for _T, n in fields] + \
                   ["        %sfill_out(&r, %d);" % (PREFIX, c["seed"])] + ["    " + s for s in show("r.")]
        elif op == "bumpInOut":
            out += ["        %s r;" % sname] + init + ["        %sbump_in_out(&r);" % PREFIX] + ["    " + s for s in show("r.")]
        elif op == "makeByValue":
            out += ["        %s r = %smake_by_value(%d);" % (sname, PREFIX, c["seed"])] + ["    " + s for s in show("r.")]
        else:
            out += ["        %s *p = %sget_ptr(%d);" % (sname, PREFIX, c["seed"])] + ["    " + s for s in show("p->")]
        out += ["        fflush(stdout);", "    }"]
    out += ["    return 0;", "}"]
    return "\n".join(out) + "\n"


def f_lit(T, v):
    kind = {"int": "C_INT", "long": "C_LONG", "short": "C_SHORT", "double": "C_DOUBLE", "float": "C_FLOAT"}[T]
    if is_float(T):
        s = repr(abs(float(v)))
        return ("(-%s_%s)" if float(v) < 0 else "%s_%s") % (s, kind)
    if v < 0:
        return "(-%d_%s)" % (-v, kind)
    return "%d_%s" % (v, kind)


def f_driver(cs):
    fields = cs["fields"]
    body = []

    def show(var):
        res = []
        for T, n in fields:
            if is_float(T):
                res.append("    call vf_show_d('%s', real(%s%%%s, C_DOUBLE))" % (n, var, n))
            else:
                res.append("    call vf_show_i('%s', int(%s%%%s, C_LONG))" % (n, var, n))
        return res
    for k, c in enumerate(cs["calls"]):
        body.append("  call vf_site(%d_C_INT)" % k)
        body.append("  block")
        op = c["op"]
        init = ["    r%%%s = %s" % (n, f_lit(T, v)) for (T, n), v in zip(fields, c["vals"])]
        if op in ("sumByValue", "sumPtr"):
            body += ["    type(rec) :: r", "    real(C_DOUBLE) :: rv"] + init + ["    call vf_next_rv(%s)" % f_lit("double", c["rv"]),
                     "    rv = %s(r)" % drivers.un_camel(op).lower(), "    call vf_show_rv(rv)"]
        elif op == "fillOut":
            body += ["    type(rec) :: r"] + ["    call fill_out(r, %d_C_INT)" % c["seed"]] + show("r")
        elif op == "bumpInOut":
            body += ["    type(rec) :: r"] + init + ["    call bump_in_out(r)"] + show("r")
        elif op == "makeByValue":
            body += ["    type(rec) :: r", "    r = make_by_value(%d_C_INT)" % c["seed"]] + show("r")
        else:
            body += ["    type(rec), pointer :: p", "    p => get_ptr(%d_C_INT)" % c["seed"]] + show("p")
        body.append("  end block")
    src = ["program vf_main", "  use iso_c_binding", "  use stlib_mod", "  implicit none", "  interface",
           "    subroutine vf_next_rv(v) bind(C, name='vf_next_rv')", "      import", "      real(C_DOUBLE), value :: v", "    end subroutine",
           "    subroutine vf_site(k) bind(C, name='vf_site')", "      import", "      integer(C_INT), value :: k", "    end subroutine",
           "    subroutine vf_show_rv(v) bind(C, name='vf_show_rv')", "      import", "      real(C_DOUBLE), value :: v", "    end subroutine",
           "    subroutine vf_show_d(n, v) bind(C, name='vf_show_d')", "      import", "      character(kind=C_CHAR) :: n(*)",
           "      real(C_DOUBLE), value :: v", "    end subroutine",
           "    subroutine vf_show_i(n, v) bind(C, name='vf_show_i')", "      import", "      character(kind=C_CHAR) :: n(*)",
           "      integer(C_LONG), value :: v", "    end subroutine", "  end interface"] + body + ["end program vf_main"]
    # member names are two characters (f0..f4): the C side prints exactly two
    return "\n".join(src) + "\n"


F_SUPPORT = r"""#include <stdio.h>
void vf_site(int k) { printf("C %d\n", k); fflush(stdout); }
void vf_show_rv(double v) { printf("RV %.17g\n", v); fflush(stdout); }
void vf_show_d(const char *n, double v) { printf("OUT %c%c %.17g\n", n[0], n[1], v); fflush(stdout); }
void vf_show_i(const char *n, long v) { printf("OUT %c%c %ld\n", n[0], n[1], v); fflush(stdout); }
"""


def _ctext(T, v):
    """The text printf produces for a value stored in a member of type T."""
    if T == "float":
        v = _struct.unpack("<f", _struct.pack("<f", float(v)))[0]
    if is_float(T):
        return "%.17g" % float(v)
    return "%d" % v


def model(cs):
    fields = cs["fields"]
    lines = []
    for k, c in enumerate(cs["calls"]):
        lines.append("C %d" % k)
        op = c["op"]
        if op in ("sumByValue", "sumPtr"):
            lines.append("E " + op)
            lines += ["IN %s %s" % (n, _ctext(T, v)) for (T, n), v in zip(fields, c["vals"])]
            lines.append("RV %.17g" % c["rv"])
        elif op in ("fillOut", "makeByValue", "getPtr"):
            lines.append("E %s %d" % (op, c["seed"]))
            lines += ["OUT %s %s" % (n, _ctext(T, lib_value(T, c["seed"], j))) for j, (T, n) in enumerate(fields)]
        else:
            lines.append("E bumpInOut")
            lines += ["IN %s %s" % (n, _ctext(T, v)) for (T, n), v in zip(fields, c["vals"])]
            lines += ["OUT %s %s" % (n, _ctext(T, bump(T, v))) for (T, n), v in zip(fields, c["vals"])]
    return lines


def build_and_run(work, cs, gen_files, front):
    """-> dict(stage, detail, stream)"""
    hdr, impl = subject(cs)
    cxx = cs["lang"] == "c++"
    open(os.path.join(work, "stlib.h"), "w").write(hdr)
    open(os.path.join(work, "stlib." + ("cpp" if cxx else "c")), "w").write(impl)
    objs = []

    def cc(cmd, src):
        obj = os.path.splitext(os.path.basename(src))[0] + ".o"
        rc, so, se = drivers.run_cmd(cmd + drivers.SAN + ["-g", "-I", ".", "-c", src, "-o", obj], work)
        if rc != 0:
            return "%s does not compile: %s" % (src, (se or so)[-1200:])
        objs.append(obj)
        return None
    err = cc(["g++", "-std=c++11"] if cxx else ["gcc", "-std=c99"], "stlib." + ("cpp" if cxx else "c"))
    if err:
        return dict(stage="harness", detail=err, stream=[])
    for fn in sorted(gen_files):
        if fn.startswith("wrap") and fn.endswith((".cpp", ".c")):
            err = cc(["g++", "-std=c++11"] if fn.endswith(".cpp") else ["gcc", "-std=c99"], fn)
            if err:
                return dict(stage="wrapper-build", detail=err, stream=[])
    if front == "fortran":
        for fn in sorted(gen_files):
            if fn.endswith(".f"):
                err = cc(["gfortran", "-cpp", "-ffree-form"], fn)
                if err:
                    return dict(stage="wrapper-build", detail=err, stream=[])
        open(os.path.join(work, "vf_fsupport.c"), "w").write(F_SUPPORT)
        open(os.path.join(work, "drv.f90"), "w").write(f_driver(cs))
        err = cc(["gcc", "-std=c99"], "vf_fsupport.c")
        if err:
            return dict(stage="harness", detail=err, stream=[])
        err = cc(["gfortran", "-ffree-form", "-ffree-line-length-none"], "drv.f90")
        if err:
            return dict(stage="driver-build", detail=err, stream=[])
        link = ["gfortran"]
    else:
        open(os.path.join(work, "drv.c"), "w").write(c_driver(cs))
        err = cc(["gcc", "-std=c99"], "drv.c")
        if err:
            return dict(stage="driver-build", detail=err, stream=[])
        link = ["g++"]
    rc, so, se = drivers.run_cmd(link + drivers.SAN + objs + ["-o", "drv", "-lstdc++"], work)
    if rc != 0:
        return dict(stage="link", detail=(se or so)[-1200:], stream=[])
    env = dict(os.environ, ASAN_OPTIONS="detect_leaks=0:halt_on_error=1:exitcode=97")
    rc, so, se = drivers.run_cmd([os.path.join(work, "drv")], work, timeout=60, env=env)
    return dict(stage="run", detail="" if rc == 0 else "exit %d: %s" % (rc, se[-800:]), rc=rc,
                stream=[l for l in so.split("\n") if l.strip()])


def py_lit(T, v):
    return repr(float(v)) if is_float(T) else "%d" % v


def py_driver(cs):
    """Python driver against the documented struct-as-class API (PY_struct_arg: class; regression/run/
    struct-class-c/python/test.py): Rec(f0, f1, ...) constructs, members are attributes, an intent(out)
    argument becomes the result, an intent(inout) argument is returned."""
    fields = cs["fields"]
    out = ["import ctypes, sys", "import stlib", "_lib = ctypes.CDLL(stlib.__file__)", "_lib.vf_next_rv.argtypes = [ctypes.c_double]",
           "_lib.vf_next_rv.restype = None",
           "def show(r):"]
    for T, n in fields:
        out.append("    print('OUT %s ' + (%s), flush=True)" % (n, ("'%%.17g' %% r.%s" % n) if is_float(T) else ("'%%d' %% r.%s" % n)))
    for k, c in enumerate(cs["calls"]):
        out.append("print('C %d', flush=True)" % k)
        op = c["op"]
        ctor = "stlib.Rec(%s)" % ", ".join(py_lit(T, v) for (T, _n), v in zip(fields, c["vals"]))
        if op in ("sumByValue", "sumPtr"):
            out += ["_lib.vf_next_rv(%r)" % c["rv"], "rv = stlib.%s(%s)" % (op, ctor), "print('RV %.17g' % rv, flush=True)"]
        elif op == "fillOut":
            out.append("show(stlib.fillOut(%d))" % c["seed"])
        elif op == "bumpInOut":
            out += ["r = %s" % ctor, "r2 = stlib.bumpInOut(r)", "show(r2)"]
        elif op == "makeByValue":
            out.append("show(stlib.makeByValue(%d))" % c["seed"])
        else:
            out.append("show(stlib.getPtr(%d))" % c["seed"])
    return "\n".join(out) + "\n"


def build_and_run_py(work, cs, gen_files):
    import subprocess
    import sysconfig
    from . import pyfront
    hdr, impl = subject(cs)
    cxx = cs["lang"] == "c++"
    open(os.path.join(work, "stlib.h"), "w").write(hdr)
    open(os.path.join(work, "stlib." + ("cpp" if cxx else "c")), "w").write(impl)
    inc = sysconfig.get_paths()["include"]
    objs = []

    def cc(cmd, src):
        obj = os.path.splitext(os.path.basename(src))[0] + ".o"
        rc, so, se = drivers.run_cmd(cmd + drivers.SAN + ["-g", "-fPIC", "-I", ".", "-I", inc, "-c", src, "-o", obj], work)
        if rc != 0:
            return "%s does not compile: %s" % (src, (se or so)[-1200:])
        objs.append(obj)
        return None
    err = cc(["g++", "-std=c++11"] if cxx else ["gcc", "-std=c99"], "stlib." + ("cpp" if cxx else "c"))
    if err:
        return dict(stage="harness", detail=err, stream=[])
    for fn in sorted(gen_files):
        if fn.startswith("py") and fn.endswith((".cpp", ".c")):
            err = cc(["g++", "-std=c++11", "-w"] if fn.endswith(".cpp") else ["gcc", "-std=c99", "-w"], fn)
            if err:
                return dict(stage="wrapper-build", detail=err, stream=[])
    rc, so, se = drivers.run_cmd(["g++", "-shared"] + drivers.SAN + objs + ["-o", "stlib.so", "-L" + sysconfig.get_config_var("LIBDIR"), "-lpython3.12"], work)
    if rc != 0:
        return dict(stage="link", detail=(se or so)[-1200:], stream=[])
    open(os.path.join(work, "drv.py"), "w").write(py_driver(cs))
    rc, asanlib, _e = drivers.run_cmd(["gcc", "-print-file-name=libasan.so"], work)
    env = dict(os.environ, PYTHONPATH=work, LD_LIBRARY_PATH=sysconfig.get_config_var("LIBDIR"), PYTHONHASHSEED="0",
               LD_PRELOAD=asanlib.strip(), ASAN_OPTIONS="detect_leaks=0:halt_on_error=1:exitcode=97")
    try:
        cp = subprocess.run([pyfront.PY, "drv.py"], cwd=work, capture_output=True, text=True, timeout=120, env=env, errors="replace")
    except subprocess.TimeoutExpired:
        return dict(stage="run", detail="python driver timed out", rc=1, stream=[])
    return dict(stage="run", detail="" if cp.returncode == 0 else "python exits with status %s: %s" % (cp.returncode, cp.stderr[-1200:]),
                rc=cp.returncode, stream=[l for l in cp.stdout.split("\n") if l.strip()])


def _job(job):
    idx, cs, front, options = job
    out = dict(idx=idx, ncalls=len(cs["calls"]), problems=[], labels=["struct-op:" + c["op"] for c in cs["calls"]] +
               ["struct-form:" + cs["form"]] + (["struct-member-options"] if cs["member_options"] else []),
               nontrivial=[(front, cs["lang"], cs["form"], tuple(cs["fields"]), tuple(sorted(cs["member_options"])), c["op"]) for c in cs["calls"]],
               sample=dict(front=front, struct=cs["fields"], form=cs["form"], member_options=cs["member_options"], call=cs["calls"][0]))
    work = tempfile.mkdtemp(prefix="vfst_", dir=core.scratch_root())
    case = dict(struct_case=cs, front=front, options=options)
    try:
        r = shroud_run.run_yaml(yaml_text(cs, options), [], workdir=work, name="stlib")
        if r.status != "ok":
            out["problems"].append(("struct:shroud", case, "Shroud stops on a struct library: " + r.describe()))
            return out
        outd = os.path.join(work, "out")
        res = build_and_run_py(outd, cs, sorted(os.listdir(outd))) if front == "python" else \
            build_and_run(outd, cs, sorted(os.listdir(outd)), front)
        if res["stage"] == "harness":
            raise core.HarnessError(res["detail"])
        if res["stage"] != "run":
            out["problems"].append(("struct:" + res["stage"], case, "%s: %s" % (res["stage"], res["detail"][-900:])))
            return out
        want = model(cs)
        got = res["stream"]
        if got != want:
            i = next((k for k, (a, b) in enumerate(zip(got, want)) if a != b), min(len(got), len(want)))
            site = max([int(l.split()[1]) for l in want[:i + 1] if l.startswith("C ")] or [0])
            op = cs["calls"][site]["op"] if site < len(cs["calls"]) else "?"
            out["problems"].append(("struct:%s:%s" % (front, op), case,
                                    "call %d (%s): expected line %r, got %r (%s)" % (site, op, want[i:i + 1], got[i:i + 1], res["detail"])))
        elif res.get("rc"):
            out["problems"].append(("struct:%s:exit" % front, case, res["detail"]))
    finally:
        shutil.rmtree(work, ignore_errors=True)
    return out


def run_structs(ctx, front, n, configs=(None,)):
    langs = ["c++"] if front == "c" else ["c++", "c"]
    jobs = []
    for lang in langs:
        # (the member-level options in turn: a few draws alone leave one of them out)
        for mo in ((None, "wrap_c", "wrap_fortran", "wrap_python") if front != "python" else (None, "wrap_c", "wrap_fortran")):
            for cs in smallgen.sample(case(lang, mo), ctx.seed + 900 + len(jobs), n if mo is None else max(2, n // 3)):
                for options in configs:
                    jobs.append((len(jobs), cs, front, options))
    for out in core.pool_map(_job, jobs):
        ctx.case(n=out["ncalls"], label=out["labels"])
        for nt in out["nontrivial"]:
            ctx.case(n=0, nontrivial=nt)
        ctx.case(n=0, sample=out["sample"])
        for key, case_, note in out["problems"]:
            ctx.failure(key, case_, expected="stream predicted by the reference model", observed=note, note=note)


def replay_case(ctx, rec):
    c = rec["case"]
    out = _job((0, c["struct_case"], c["front"], c.get("options")))
    for key, case_, note in out["problems"]:
        ctx.failure(key, case_, observed=note, note=note)
