"""Interpreter drivers for call histories (C06): one executable per library reads
opcodes from stdin, so Hypothesis can run thousands of histories against one
ASan build.

opcode line:  op fidx obj k obj2
  1 new   (fidx = constructor, obj = destination slot, k = input vector)
  2 mcall (fidx = method, obj)
  3 del   (obj)                       -- also used for "delete again"
  4 make  (fidx = maker, obj = destination slot)
  5 copy  (obj = source slot, obj2 = destination slot): copy the handle
  6 call  (fidx = plain function or static method)
  7 use   (fidx = free function taking the object, obj)
After every operation the library reports its live-object count.
"""
import os
import subprocess

from . import xlib, drivers
from .drivers import PREFIX

NSLOT = 8


def catalog(lib):
    """Ordered list of (kind, f) of everything callable."""
    cat = []
    for f in lib["funcs"]:
        cat.append(("call", f))
    for c in lib.get("classes", []):
        for f in c["ctors"]:
            cat.append(("new", f))
        for f in c["methods"]:
            cat.append(("mcall", f))
        for f in c["statics"]:
            cat.append(("call", f))
        for f in c["makers"]:
            cat.append(("make", f))
        for f in c["users"]:
            cat.append(("use", f))
    return cat


def _op_for(kind, f, k, cls):
    op = dict(kind=kind if kind != "use" else "call", f=f, k=k, cls=cls)
    if kind in ("new", "make", "mcall"):
        op["obj"] = "b"
    if kind == "use":
        op["objs"] = {"obj": "b"}
    return op


def c_interp(lib):
    cls = lib["classes"][0]["name"] if lib.get("classes") else None
    out = ["#include <stdio.h>", "#include <string.h>", "#include <stdbool.h>", "#include <stdint.h>", "#include <stddef.h>",
           '#include "wrap%s.h"' % lib["name"]]
    if cls:
        out += ['#include "wrap%s.h"' % cls, "void vf_oo_%s(int slot, void *p);" % cls]
    out += ['#include "vf_support.h"', "int main(void)", "{", "    int op, a, b, k, b2, site = 0;"]
    if cls:
        out += ["    %s%s obj[%d];" % (PREFIX, cls, NSLOT), "    memset(obj, 0, sizeof obj);"]
    out += ['    while (scanf("%d %d %d %d %d", &op, &a, &b, &k, &b2) == 5) {', "        vf_callsite(site++);", "        switch (op) {"]
    cat = catalog(lib)
    for code, kinds in ((1, ("new",)), (2, ("mcall",)), (4, ("make",)), (6, ("call",)), (7, ("use",))):
        out.append("        case %d:" % code)
        out.append("            switch (a * 10 + k) {")
        for idx, (kind, f) in enumerate(cat):
            if kind not in kinds:
                continue
            for k in range(len(f["calls"])):
                out.append("            case %d: {" % (idx * 10 + k))
                out += ["            " + l for l in drivers.c_op_lines(lib, _op_for(kind, f, k, cls))]
                out.append("            } break;")
        out.append("            default: vf_note(\"bad-op\"); }")
        out.append("            break;")
    if cls:
        out += ["        case 3: %s%s_dtor(&obj[b]); break;" % (PREFIX, cls), "        case 5: obj[b2] = obj[b]; break;"]
    out += ["        default: vf_note(\"bad-op\");", "        }", "        vf_live_report();", "    }", "    return 0;", "}"]
    return "\n".join(out) + "\n"


def f_interp(lib):
    cls = lib["classes"][0]["name"] if lib.get("classes") else None
    src = ["subroutine vf_run()", "  use iso_c_binding", "  use vf_mod", "  use %s_mod" % lib["name"].lower(), "  implicit none",
           "  interface", "    subroutine vf_live_report() bind(C, name=\"vf_live_report\")", "    end subroutine"]
    if cls:
        src += ["    subroutine vf_oo_%s(slot, p) bind(C, name=\"vf_oo_%s\")" % (cls.lower(), cls),
                "      import", "      integer(C_INT), value :: slot", "      type(C_PTR), value :: p", "    end subroutine"]
    src += ["  end interface", "  integer :: op, a, b, k, b2, ios, site"]
    if cls:
        src.append("  type(%s) :: obj(%d)" % (cls.lower(), NSLOT))
    src += ["  site = 0", "  do", "    read(*, *, iostat=ios) op, a, b, k, b2", "    if (ios /= 0) exit",
            "    call vf_callsite(int(site, C_INT))", "    site = site + 1", "    select case (op)"]
    cat = catalog(lib)
    for code, kinds in ((1, ("new",)), (2, ("mcall",)), (4, ("make",)), (6, ("call",)), (7, ("use",))):
        src.append("    case (%d)" % code)
        src.append("      select case (a * 10 + k)")
        for idx, (kind, f) in enumerate(cat):
            if kind not in kinds:
                continue
            for k in range(len(f["calls"])):
                src.append("      case (%d)" % (idx * 10 + k))
                src += ["      " + l for l in drivers.f_op_lines(lib, _op_for(kind, f, k, cls))]
        src.append("      end select")
    if cls:
        src += ["    case (3)", "      call obj(b + 1)%dtor()", "    case (5)", "      obj(b2 + 1) = obj(b + 1)"]
    src += ["    end select", "    call vf_live_report()", "  end do", "end subroutine vf_run",
            "program vf_main", "  call vf_run()", "end program vf_main"]
    res = []
    for ln in src:
        while len(ln) > 120:
            cut = ln.rfind(",", 0, 118)
            if cut < 20:
                break
            res.append(ln[:cut + 1] + " &")
            ln = "      " + ln[cut + 1:]
        res.append(ln)
    return "\n".join(res) + "\n"


# ---------------------------------------------------------------------------
# reference model of a history

class Model(object):
    """Handles, ownership and the library's scripted call counters."""

    def __init__(self, lib, front):
        self.lib = lib
        self.front = front
        self.cat = catalog(lib)
        self.slots = [None] * NSLOT     # None | dict(serial, owned, state: live|released|dangling)
        self.alive = {}                 # serial -> True while the C++ object exists
        self.nserial = 0
        self.borrowed = None
        self.count = {}                 # fid -> calls so far
        self.live = 0
        self.lines = []
        self.site = 0

    # ---- queries used by the rules' preconditions
    def usable(self, s):
        h = self.slots[s]
        return h is not None and h["state"] == "live" and self.alive.get(h["serial"])

    def free_slot(self, s):
        """A slot that may be overwritten without leaking a caller-owned object."""
        h = self.slots[s]
        if h is None or h["state"] in ("released", "dangling"):
            return True
        if not h["owned"]:
            return True
        # owned and live: fine if another slot still refers to the object
        return any(i != s and o is not None and o["state"] == "live" and o["serial"] == h["serial"]
                   for i, o in enumerate(self.slots))

    def next_k(self, f):
        return self.count.get(f["fid"], 0) % len(f["calls"])

    # ---- operations: append expected lines, return the opcode line
    def _begin(self):
        self.lines.append("C %d" % self.site)
        self.site += 1

    def _end(self):
        self.lines.append("LIVE %d" % self.live)

    def _call_lines(self, f, k, opkind, slot):
        serial_of = {"b": self.slots[slot]["serial"]} if slot is not None and self.slots[slot] else {}
        op = dict(kind=opkind, obj="b", objs={"obj": "b"})
        ec = xlib.expected_call(f, f["calls"][k], 0, self.front, serial_of, op)
        self.count[f["fid"]] = self.count.get(f["fid"], 0) + 1
        return ec[1:]      # without the 'C site' line

    def op_new(self, fidx, slot):
        kind, f = self.cat[fidx]
        k = self.next_k(f)
        self._begin()
        self.lines += self._call_lines(f, k, "new", None)
        self.nserial += 1
        self.live += 1
        self.alive[self.nserial] = True
        self.lines.append("NEW %d" % self.nserial)
        self.slots[slot] = dict(serial=self.nserial, owned=True, state="live")
        self._end()
        return "1 %d %d %d 0" % (fidx, slot, k)

    def op_mcall(self, fidx, slot):
        kind, f = self.cat[fidx]
        k = self.next_k(f)
        self._begin()
        self.lines += self._call_lines(f, k, "mcall", slot)
        self._end()
        return "2 %d %d %d 0" % (fidx, slot, k)

    def op_use(self, fidx, slot):
        kind, f = self.cat[fidx]
        k = self.next_k(f)
        self._begin()
        self.lines += self._call_lines(f, k, "call", slot)
        self._end()
        return "7 %d %d %d 0" % (fidx, slot, k)

    def op_call(self, fidx):
        kind, f = self.cat[fidx]
        k = self.next_k(f)
        self._begin()
        self.lines += self._call_lines(f, k, "call", None)
        self._end()
        return "6 %d 0 %d 0" % (fidx, k)

    def op_make(self, fidx, slot):
        kind, f = self.cat[fidx]
        k = self.next_k(f)
        self._begin()
        self.lines += self._call_lines(f, k, "make", None)
        if f["owned"]:
            self.nserial += 1
            self.live += 1
            self.alive[self.nserial] = True
            self.lines += ["NEW %d" % self.nserial, "O rv o %d" % self.nserial]
            self.slots[slot] = dict(serial=self.nserial, owned=True, state="live")
        else:
            if self.borrowed is None:
                self.nserial += 1
                self.live += 1
                self.alive[self.nserial] = True
                self.borrowed = self.nserial
                self.lines.append("NEW %d" % self.nserial)
            self.lines.append("O rv o %d" % self.borrowed)
            self.slots[slot] = dict(serial=self.borrowed, owned=False, state="live")
        self._end()
        return "4 %d %d %d 0" % (fidx, slot, k)

    def op_copy(self, src, dst):
        self._begin()
        self.slots[dst] = dict(self.slots[src]) if self.slots[src] else None
        self._end()
        return "5 0 %d 0 %d" % (src, dst)

    def op_del(self, slot, dtor_fid):
        """Delete through a live handle, or delete again through an already released one."""
        self._begin()
        h = self.slots[slot]
        if h is not None and h["state"] == "live":
            self.lines += ["E %d" % dtor_fid, "DEL %d" % h["serial"]]
            self.live -= 1
            self.alive[h["serial"]] = False
            for i, o in enumerate(self.slots):
                if i != slot and o is not None and o["serial"] == h["serial"] and o["state"] == "live":
                    o["state"] = "dangling"       # an alias of a deleted object: never touched again
            h["state"] = "released"
        # released handle (or never used slot): releasing again does nothing
        self._end()
        return "3 0 %d 0 0" % slot


def build(work, lib, gen_files, front, asan=True):
    """Build the interpreter driver; returns (exe path or None, error text)."""
    src = c_interp(lib) if front == "c" else f_interp(lib)
    res = drivers.build_custom(work, xlib.subject_sources(lib), lib["language"] == "c++", gen_files, front, src,
                               asan=asan, run=False)
    if res["stage"] != "built":
        return None, res
    return os.path.join(work, "drv"), res


def run_history(exe, opcodes, timeout=60):
    env = dict(os.environ, ASAN_OPTIONS="detect_leaks=1:halt_on_error=1:exitcode=97")
    cp = subprocess.run([exe], input="\n".join(opcodes) + "\n", capture_output=True, text=True, timeout=timeout,
                        env=env, errors="replace")
    return cp.returncode, [l for l in cp.stdout.split("\n") if l], cp.stderr
