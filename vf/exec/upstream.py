"""Build and run the upstream executed regression tests (regression/run/<name>)
against wrappers generated from /repo's CURRENT working tree.

A scratch 'top' tree is created: top/regression/run -> /repo/regression/run
(symlink) and top/regression/reference/<name> = freshly generated output, so the
upstream Makefiles (parsed from regression/run/Makefile, not copied) build the
real library sources, the fresh wrappers and upstream's own test driver.
"""
import os
import re
import shutil
import subprocess
import sys
import tempfile

from .. import core, corpus, meta, shroud_run

RUN = os.path.join(core.REPO, "regression", "run")


def target_lists():
    """{'fortran': [...], 'c': [...], 'python': [...], 'cfi': [...]} parsed from the upstream Makefile."""
    text = open(os.path.join(RUN, "Makefile")).read()
    text = re.sub(r"#[^\n]*", "", text)
    res = {}
    for kind, var in (("fortran", "test-fortran"), ("cfi", "test-cfi"), ("c", "test-c"), ("python", "test-python")):
        m = re.search(r"^%s[ \t]*:(.*?)\n[ \t]*\n" % re.escape(var), text, re.M | re.S)
        names = []
        if m:
            for tok in m.group(1).replace("\\", " ").split():
                pref = {"fortran": "test-fortran-", "cfi": "test-fortran-", "c": "test-c-", "python": "test-python-"}[kind]
                if tok.startswith(pref):
                    names.append(tok[len(pref):])
        res[kind] = names
    res["fortran"] = res["fortran"] + [n for n in res["cfi"] if n not in res["fortran"]]
    if "strings-cfi" not in res["fortran"] and os.path.isdir(os.path.join(RUN, "strings-cfi")):
        res["fortran"].append("strings-cfi")
    return res


def generate(entry_name, dest, yaml_edit=None, extra_argv=()):
    """Run Shroud for corpus entry `entry_name` into directory dest (as --outdir)."""
    e = corpus.by_name(entry_name)
    text = e.text()
    if yaml_edit:
        doc = meta.load(text)
        doc = yaml_edit(doc)
        text = meta.dump(doc)
    os.makedirs(dest, exist_ok=True)
    work = tempfile.mkdtemp(prefix="vfup_", dir=core.scratch_root())
    try:
        ypath = os.path.join(work, e.yaml)
        with open(ypath, "w") as fp:
            fp.write(text)
        av = [a for a in e.argv()] + list(extra_argv) + ["--outdir", dest, "--logdir", dest, ypath]
        r = shroud_run.run_argv(av, cwd=work)
        return r
    finally:
        shutil.rmtree(work, ignore_errors=True)


def parse_fruit(out):
    m1 = re.search(r"Total asserts\s*:\s*(\d+)", out)
    m2 = re.search(r"Failed\s*:\s*(\d+)", out)
    if not m1 or not m2:
        return None
    return int(m1.group(1)), int(m2.group(1))


def build_and_run(name, kind="fortran", yaml_edit=None, extra_argv=(), make_vars=(), asan=False, timeout=900, keep=None):
    """-> dict(stage='generate'|'build'|'run'|'ok', detail, asserts, failed, output)"""
    top = tempfile.mkdtemp(prefix="vftop_", dir=core.scratch_root())
    try:
        os.makedirs(os.path.join(top, "regression", "reference"))
        os.symlink(RUN, os.path.join(top, "regression", "run"))
        gen = os.path.join(top, "regression", "reference", name)
        r = generate(name, gen, yaml_edit, extra_argv)
        if r.status != "ok":
            return dict(stage="generate", detail=r.describe(), asserts=0, failed=0, output="")
        build = os.path.join(top, "build")
        os.makedirs(build)
        target = {"fortran": name, "c": "testc"}[kind]
        mv = list(make_vars)
        if asan:
            san = "-fsanitize=address -fno-omit-frame-pointer"
            mv += ["CFLAGS=-g -std=c99 -fno-strict-aliasing -Wno-enum-compare " + san,
                   "CXXFLAGS=-g -std=c++11 -fno-strict-aliasing " + san,
                   "FFLAGS=-g -cpp -ffree-form -fbounds-check " + san,
                   "FLIBS=-lstdc++ " + san, "CLIBS=-lstdc++ " + san]
        cp = subprocess.run(["make", "-f", os.path.join(top, "regression", "run", name, "Makefile"),
                             "top=" + top, target] + mv, cwd=build, capture_output=True, text=True, timeout=timeout)
        if cp.returncode != 0:
            err = [l for l in (cp.stdout + cp.stderr).split("\n") if "rror" in l or "undefined" in l]
            return dict(stage="build", detail="\n".join(err[:12]) or (cp.stdout + cp.stderr)[-1500:], asserts=0, failed=0,
                        output=(cp.stdout + cp.stderr)[-3000:])
        exe = os.path.join(build, target)
        env = dict(os.environ)
        if asan:
            env["ASAN_OPTIONS"] = "detect_leaks=1:halt_on_error=1"
        try:
            rp = subprocess.run([exe], cwd=build, capture_output=True, text=True, timeout=300, env=env, errors="replace")
        except subprocess.TimeoutExpired:
            return dict(stage="run", detail="test program timed out", asserts=0, failed=0, output="")
        out = rp.stdout + rp.stderr
        fr = parse_fruit(out)
        if keep:
            shutil.copytree(gen, keep, dirs_exist_ok=True)
        if rp.returncode != 0:
            return dict(stage="run", detail="exit status %s: %s" % (rp.returncode, out[-1500:]), asserts=fr[0] if fr else 0,
                        failed=fr[1] if fr else 0, output=out[-12000:])
        if fr is not None and fr[1] != 0:
            fails = [l for l in out.split("\n") if "xpected" in l or "got" in l.lower() or "FAIL" in l]
            return dict(stage="run", detail="%d of %d upstream assertions fail: %s" % (fr[1], fr[0], " | ".join(fails[:6])),
                        asserts=fr[0], failed=fr[1], output=out[-12000:])
        return dict(stage="ok", detail="", asserts=fr[0] if fr else 0, failed=0, output=out[-2000:])
    finally:
        shutil.rmtree(top, ignore_errors=True)


def _job(job):
    name, kind, variant = job
    edit = None
    if variant:
        opts = dict(variant)

        def edit(doc, opts=opts):
            return meta.with_options(doc, opts)
    res = build_and_run(name, kind, yaml_edit=edit)
    res.update(name=name, kind=kind, variant=variant)
    return res


if __name__ == "__main__":
    kinds = target_lists()
    print(kinds)
    jobs = [(n, "fortran", None) for n in kinds["fortran"]] + [(n, "c", None) for n in kinds["c"]]
    for res in core.pool_map(_job, jobs):
        print(res["name"], res["kind"], res["stage"], res["asserts"], res["failed"], res["detail"][:300])
