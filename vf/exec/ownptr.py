"""Caller-owned pointer results (C06): a fixed small library whose functions return
freshly allocated arrays with +owner(caller) - one released with free() (the
documented default for POD pointers), one through a +free_pattern that gives the
buffer back to the library - wrapped for Fortran and driven by an interpreter
that reads a history of operations over three capsule variables:

    1 j   p => take_buf(cap(j))        (malloc'ed by the library, owner(caller))
    2 j   p => take_pool(cap(j))       (library pool, released by the pattern code)
    3 j   call cap(j)%delete()         (also used for "delete again")
    4 j   read through the last pointer obtained for capsule j (must still be valid)
    5 j   a = peek_pool()              (library-owned table copied into an allocatable; free_pattern given but
                                        owner(library): nothing may be released)
    6 j   s = take_label()             (const std::string * +owner(caller): the text is copied into the Fortran
                                        result and the C++ string released with its own deallocator - strings.yaml
                                        getConstStringPtrOwnsAlloc)
    7 j   n = total_len(names(1:j+1))  (char **names +intent(in): a NUL-terminated copy of every element is made
                                        and released again before the wrapper returns - pointers.yaml acceptCharArrayIn;
                                        element count j+1 in 2..4, CHARACTER length 3)

ownership.yaml / regression/run/ownership/main.f use exactly this API
(`intp1 => return_int_ptr_dim_pointer_new(cap)`, `call cap%delete()`), including
the re-use of one capsule variable for several results.  After every operation
the library reports how many pool buffers are outstanding; the driver ends by
leaving the subroutine that owns the capsule variables (finalisation).
"""
import os
import subprocess

from . import drivers

YAML = """library: OwnLib
cxx_header: ownlib.hpp
options:
  wrap_python: false
  wrap_lua: false
declarations:
- decl: int *takeBuf(int *n +intent(out)+hidden) +dimension(n)+owner(caller)
- decl: int *takePool(int *n +intent(out)+hidden) +dimension(n)+owner(caller)+free_pattern(giveback_pool)
- decl: int *peekPool(int *n +intent(out)+hidden) +dimension(n)+deref(allocatable)+free_pattern(giveback_pool)
- decl: int poolOutstanding()
- decl: const std::string *takeLabel() +owner(caller)
- decl: int totalLen(char **names +intent(in), int n +implied(size(names)))
patterns:
  giveback_pool: |
    vf_giveback(ptr);
"""

HEADER = """#ifndef OWNLIB_HPP
#define OWNLIB_HPP
#include <string>
const std::string *takeLabel();
int totalLen(char **names, int n);
int *takeBuf(int *n);
int *takePool(int *n);
int *peekPool(int *n);
int poolOutstanding();
void vf_giveback(void *p);
#endif
"""

IMPL = r"""#include "ownlib.hpp"
#include <stdio.h>
#include <stdlib.h>
#include <string.h>
static int vf_serial = 0;
static int vf_out = 0;
int *takeBuf(int *n)
{
    int i, k = 3 + (vf_serial++ % 3);
    int *p = (int *) malloc(k * sizeof(int));
    for (i = 0; i < k; i++) p[i] = 100 * vf_serial + i;
    *n = k;
    printf("TAKE buf %d\n", vf_serial); fflush(stdout);
    return p;
}
int *takePool(int *n)
{
    int i, k = 2 + (vf_serial++ % 4);
    int *p = new int[k];
    for (i = 0; i < k; i++) p[i] = 100 * vf_serial + i;
    *n = k;
    ++vf_out;
    printf("TAKE pool %d\n", vf_serial); fflush(stdout);
    return p;
}
static int vf_library_table[4] = {7, 8, 9, 10};
int *peekPool(int *n)
{
    /* memory the library keeps (owner(library) is the default): the caller gets a copy */
    *n = 4;
    printf("PEEK\n"); fflush(stdout);
    return vf_library_table;
}
int poolOutstanding() { return vf_out; }
const std::string *takeLabel()
{
    /* longer than any small-string buffer: a string that is not destroyed leaks its heap block */
    printf("LABEL\n"); fflush(stdout);
    return new std::string("a label of forty characters, more or less");
}
int totalLen(char **names, int n)
{
    int i, t = 0;
    for (i = 0; i < n; i++) t += (int) strlen(names[i]);
    printf("NAMES %d %d\n", n, t); fflush(stdout);
    return t;
}
void vf_giveback(void *p)
{
    if (p == NULL) { printf("GIVEBACK NULL\n"); fflush(stdout); return; }
    if (p == (void *) vf_library_table) { printf("GIVEBACK LIBRARY-OWNED\n"); fflush(stdout); return; }
    --vf_out;
    printf("GIVEBACK %d\n", ((int *) p)[0] / 100); fflush(stdout);
    delete[] (int *) p;
}
"""

SUPPORT_C = "#include <stdio.h>\nvoid vf_dummy(void) {}\n"

DRIVER = """
subroutine vf_run()
  use iso_c_binding
  use ownlib_mod
  implicit none
  type(OWN_SHROUD_capsule) :: cap1, cap2, cap3
  integer :: op, j, ios
  integer(C_INT), pointer :: p1(:), p2(:), p3(:)
  nullify(p1, p2, p3)
  do
    read(*, *, iostat=ios) op, j
    if (ios /= 0) exit
    select case (op * 10 + j)
    case (11)
      p1 => take_buf(cap1)
    case (12)
      p2 => take_buf(cap2)
    case (13)
      p3 => take_buf(cap3)
    case (21)
      p1 => take_pool(cap1)
    case (22)
      p2 => take_pool(cap2)
    case (23)
      p3 => take_pool(cap3)
    case (31)
      call cap1%delete()
    case (32)
      call cap2%delete()
    case (33)
      call cap3%delete()
    case (51, 52, 53)
      block
        integer(C_INT), allocatable :: a(:)
        a = peek_pool()
        print '(A,I0,A,I0)', "COPY ", size(a), " ", a(1)
      end block
    case (61, 62, 63)
      block
        character(len=:), allocatable :: s
        s = take_label()
        print '(A,I0)', "STR ", len(s)
      end block
    case (71, 72, 73)
      block
        character(len=3) :: names(4)
        integer(C_INT) :: t
        names = [character(len=3) :: "ab", "c", "def", "g"]
        t = total_len(names(1:j + 1))
        print '(A,I0)', "TOTAL ", t
      end block
    case (41)
      print '(A,I0,A,I0)', "READ ", size(p1), " ", p1(1) / 100
    case (42)
      print '(A,I0,A,I0)', "READ ", size(p2), " ", p2(1) / 100
    case (43)
      print '(A,I0,A,I0)', "READ ", size(p3), " ", p3(1) / 100
    end select
    flush(6)
    print '(A,I0)', "OUT ", pool_outstanding()
    flush(6)
  end do
end subroutine vf_run
program vf_main
  use ownlib_mod
  call vf_run()
  ! the capsule variables of vf_run have been finalised by now
  print '(A,I0)', "FINAL ", pool_outstanding()
end program vf_main
"""


def build(work, gen_files):
    """Compile library, generated wrappers and the interpreter with AddressSanitizer.
    -> (exe or None, detail)"""
    for fn, text in (("ownlib.hpp", HEADER), ("ownlib.cpp", IMPL), ("drv.f90", DRIVER)):
        with open(os.path.join(work, fn), "w") as fp:
            fp.write(text)
    san = drivers.SAN
    objs = []

    def cc(cmd, src):
        obj = os.path.splitext(src)[0] + ".o"
        rc, so, se = drivers.run_cmd(cmd + san + ["-g", "-I", ".", "-c", src, "-o", obj], work)
        if rc != 0:
            return "%s does not compile: %s" % (src, (se or so)[-1200:])
        objs.append(obj)
        return None
    err = cc(["g++", "-std=c++11"], "ownlib.cpp")
    if err:
        return None, ("harness", err)
    for fn in sorted(gen_files):
        if fn.endswith(".cpp"):
            err = cc(["g++", "-std=c++11"], fn)
            if err:
                return None, ("wrapper-build", err)
    for fn in sorted(gen_files):
        if fn.endswith(".f"):
            err = cc(["gfortran", "-cpp", "-ffree-form"], fn)
            if err:
                return None, ("wrapper-build", err)
    err = cc(["gfortran", "-ffree-form"], "drv.f90")
    if err:
        return None, ("driver-build", err)
    rc, so, se = drivers.run_cmd(["gfortran"] + san + objs + ["-o", "drv", "-lstdc++"], work)
    if rc != 0:
        return None, ("link", (se or so)[-1200:])
    return os.path.join(work, "drv"), ("built", "")


def run(exe, ops, timeout=60):
    env = dict(os.environ, ASAN_OPTIONS="detect_leaks=1:halt_on_error=1:exitcode=97")
    cp = subprocess.run([exe], input="".join("%d %d\n" % op for op in ops), capture_output=True, text=True,
                        timeout=timeout, env=env, errors="replace")
    return cp.returncode, [l for l in cp.stdout.split("\n") if l.strip()], cp.stderr


def model(ops):
    """Reference model: expected output lines for a history (serial numbers of buffers, outstanding pool
    buffers after every step, give-back order) and whether each capsule still holds something at the end."""
    lines = []
    serial = 0
    caps = {1: None, 2: None, 3: None}        # (kind, serial) held by the capsule variable
    ptr = {1: None, 2: None, 3: None}         # what the driver's pointer variable points to (None = dangling/unset)
    sizes = {}

    def release(j):
        h = caps[j]
        if h is not None:
            if h[0] == "pool":
                lines.append("GIVEBACK %d" % h[1])
            for q in ptr:
                if ptr[q] == h:
                    ptr[q] = None
            caps[j] = None

    out = 0
    for op, j in ops:
        if op in (1, 2):
            kind = "buf" if op == 1 else "pool"
            # the capsule dummy is intent(OUT): what the actual argument still owns is released on entry
            release(j)
            k = (3 + serial % 3) if kind == "buf" else (2 + serial % 4)
            serial += 1
            sizes[serial] = k
            lines.append("TAKE %s %d" % (kind, serial))
            caps[j] = (kind, serial)
            ptr[j] = caps[j]
        elif op == 3:
            release(j)
        elif op == 4:
            lines.append("READ %d %d" % (sizes[ptr[j][1]], ptr[j][1]))
        elif op == 5:
            lines += ["PEEK", "COPY 4 7"]       # a copy of library-owned memory: nothing is given back
        elif op == 6:
            lines += ["LABEL", "STR 41"]
        elif op == 7:
            t = sum(len(x) for x in ["ab", "c", "def", "g"][:j + 1])
            lines += ["NAMES %d %d" % (j + 1, t), "TOTAL %d" % t]
        out = sum(1 for h in caps.values() if h is not None and h[0] == "pool")
        lines.append("OUT %d" % out)
    for j in (1, 2, 3):
        release(j)
    lines.append("FINAL 0")
    return lines, ptr
