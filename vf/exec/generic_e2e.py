"""fortran_generic variants and assumed-rank arguments, executed (C01, Fortran front).

fortran.rst "Generic Interfaces": the four documented uses of a generic
interface that is not an overload / default-argument set:

  coerce   RT Name(T a0, U a1)  fortran_generic: (V a0) / (T a0) ...     "Argument Coercion"
  sarr     RT Name(const T *values, int nvalues)  fortran_generic: (const T *values) /
           (const T *values+rank(1)) / (+rank(2))                         "Scalar and Array Arguments"
  fill     void Name(T *to, int nto)  same variants, the library writes   (generic.yaml AssignValues)
  arank    RT Name(const T *values+dimension(..), int nvalues) with F_assumed_rank_min / max   "Assumed Rank"
  tag      void Name(const char * / const std::string & name, T value) fortran_generic over T
           (a generic function that also needs the bufferify / CFI wrapper)

Every variant is called through the documented generic name (and, when the
variant has an explicit function_suffix, through `{underscore_name}{suffix}`
too).  The subject library prints what it receives, the driver what it gets
back; a Python model predicts the stream from the case alone.
"""
import os
import shutil
import struct as _struct
import tempfile

from hypothesis import strategies as st

from .. import core, shroud_run, smallgen
from . import drivers

KIND = {"int": "C_INT", "long": "C_LONG", "float": "C_FLOAT", "double": "C_DOUBLE", "short": "C_SHORT"}
INTS = ["int", "long", "short"]
REALS = ["float", "double"]
KINDS = ["coerce", "sarr", "fill", "arank", "tag"]


def is_float(T):
    return T in REALS


def fdecl(T):
    return ("real(%s)" if is_float(T) else "integer(%s)") % KIND[T]


@st.composite
def value(draw, T):
    """A value exactly representable in T (and in every wider type of its class)."""
    if is_float(T):
        return draw(st.sampled_from([0.0, 0.25, -1.5, 2.75, 100.5, -0.125, 3.0, 42.0, 1024.25]))
    if T == "short":
        return draw(st.sampled_from([0, 1, -1, 7, 300, -32767, 32767]))
    if T == "int":
        return draw(st.sampled_from([0, 1, -1, 7, 42, 1000, -2147483647, 2147483647, 65536]))
    return draw(st.sampled_from([0, 1, -1, 7, 42, 4294967296, -4294967297, 9007199254740993, 65536]))


def narrower(types):
    """The narrowest type of a set (values are drawn from it so that they fit every variant)."""
    order = ["short", "int", "long", "float", "double"]
    return sorted(types, key=order.index)[0]


@st.composite
def func(draw, idx, lang, kind=None):
    kind = kind or draw(st.sampled_from(KINDS))
    name = {"coerce": "Coerce", "sarr": "SumVals", "fill": "FillVals", "arank": "RankVals", "tag": "TagName"}[kind] + "ABCDEFGH"[idx]
    explicit = draw(st.booleans())
    f = dict(kind=kind, name=name, explicit=explicit)
    if kind == "coerce":
        cls0 = draw(st.sampled_from([INTS, REALS]))
        T0 = draw(st.sampled_from(cls0))
        nargs = draw(st.integers(1, 3))
        base = [T0] + [draw(st.sampled_from(INTS + REALS)) for _ in range(nargs - 1)]
        # which arguments vary (always the first; later ones with probability 1/2); variants = type tuples for them
        vary = [0] + [i for i in range(1, nargs) if draw(st.booleans())]
        variants = [tuple(base[i] for i in vary)]
        for _ in range(draw(st.integers(1, 2))):
            v = tuple(draw(st.sampled_from(INTS if base[i] in INTS else REALS)) for i in vary)
            if v not in variants:
                variants.append(v)
        if len(variants) == 1:
            other = [t for t in (INTS if T0 in INTS else REALS) if t != T0][0]
            variants.append((other,) + variants[0][1:])
        variants = draw(st.permutations(variants))
        f.update(base=base, vary=vary, variants=[list(v) for v in variants],
                 ret=draw(st.sampled_from([None, None, "int", "long", "double", "float"])))
    elif kind in ("sarr", "fill"):
        f.update(T=draw(st.sampled_from(["int", "long", "float", "double"])),
                 ranks=draw(st.sampled_from([[0, 1], [1, 0], [0, 1, 2], [1, 2], [0, 2]])),
                 ret=draw(st.sampled_from([None, "int", "double"])) if kind == "sarr" else None)
        if kind == "sarr":
            # a variant may change the rank of one argument and the type of another at once
            FT = draw(st.sampled_from([None, "double", "long"]))
            f["factor"] = FT
            f["ftypes"] = [draw(st.sampled_from(REALS if FT == "double" else ["int", "long"])) for _ in f["ranks"]] if FT else None
            if FT and FT not in f["ftypes"]:
                f["ftypes"][0] = FT
    elif kind == "arank":
        rmin = draw(st.sampled_from([0, 0, 1]))
        f.update(T=draw(st.sampled_from(["int", "long", "float", "double"])), rmin=rmin,
                 rmax=draw(st.integers(max(rmin, 1), 3)), two=draw(st.booleans()),
                 ret=draw(st.sampled_from([None, "int", "double"])))
    else:
        cls = draw(st.sampled_from([INTS, REALS]))
        T = draw(st.sampled_from(cls))
        others = [t for t in cls if t != T]
        f.update(T=T, variants=draw(st.permutations([T] + [draw(st.sampled_from(others))])),
                 stype=("const char *" if lang != "c++" else
                        # (the first function of a C++ library always needs the bufferify / CFI wrapper)
                        "const std::string &" if idx == 0 else
                        draw(st.sampled_from(["const char *", "const std::string &", "std::string "]))), ret=None)
    return f


def shape_of(rank, draw):
    if rank == 0:
        return []
    if rank == 1:
        return [draw(st.sampled_from([0, 1, 2, 5]))]
    if rank == 2:
        return draw(st.sampled_from([[2, 3], [1, 2], [3, 1], [2, 2]]))
    return draw(st.sampled_from([[2, 1, 2], [1, 2, 3], [2, 2, 2]]))


def nelem(shape):
    n = 1
    for s in shape:
        n *= s
    return n


def variants_of(f):
    """-> list of (label, suffix or None, variant description)"""
    if f["kind"] == "coerce":
        return [("_".join(v), ("_" + "_".join(v)) if f["explicit"] else None, v) for v in f["variants"]]
    if f["kind"] in ("sarr", "fill"):
        return [("rank%d" % r, ("_r%d" % r) if f["explicit"] else None, r) for r in f["ranks"]]
    if f["kind"] == "arank":
        return [("rank%d" % r, None, r) for r in range(f["rmin"], f["rmax"] + 1)]
    return [(v, ("_" + v) if f["explicit"] else None, v) for v in f["variants"]]


@st.composite
def case(draw, lang=None, kind=None):
    lang = lang or draw(st.sampled_from(["c++", "c"]))
    funcs = [draw(func(i, lang, kind)) for i in range(draw(st.integers(2, 4)))]
    calls = []
    for fi, f in enumerate(funcs):
        for vi, (label, suffix, v) in enumerate(variants_of(f)):
            for via in (["generic", "specific"] if suffix else ["generic"]):
                c = dict(f=fi, v=vi, via=via, rv=draw(st.sampled_from([0, 3, -7, 1000, 12])))
                if f["kind"] == "coerce":
                    types = list(f["base"])
                    for i, t in zip(f["vary"], v):
                        types[i] = narrower([t, f["base"][i]])
                    c["vals"] = [draw(value(t)) for t in types]
                elif f["kind"] in ("sarr", "fill", "arank"):
                    c["shape"] = shape_of(v, draw)
                    c["vals"] = [draw(value(f["T"])) for _ in range(nelem(c["shape"]))]
                    if f.get("factor"):
                        c["fval"] = draw(value(narrower([f["ftypes"][vi], f["factor"]])))
                    if f["kind"] == "arank" and f["two"]:
                        c["vals2"] = [draw(value(f["T"])) for _ in range(nelem(c["shape"]))]
                else:
                    text = "".join(draw(st.sampled_from("ab ~")) for _ in range(draw(st.integers(0, 6))))
                    # (one call of every function passes a variable with trailing blanks: the documented trim is visible)
                    c["text"], c["flen"] = text, len(text) + (2 if vi == 0 else draw(st.sampled_from([0, 0, 2])))
                    c["vals"] = [draw(value(narrower([v, f["T"]])))]
                calls.append(c)
    return dict(lang=lang, funcs=funcs, calls=draw(st.permutations(calls)))


# ---------------------------------------------------------------------------
# YAML

def yaml_text(cs, options=None):
    import yaml
    decls = []
    for f in cs["funcs"]:
        rt = f["ret"] or "void"
        d = {}
        if f["kind"] == "coerce":
            d["decl"] = "%s %s(%s)" % (rt, f["name"], ", ".join("%s a%d" % (t, i) for i, t in enumerate(f["base"])))
            gen = [{"decl": "(%s)" % ", ".join("%s a%d" % (t, i) for i, t in zip(f["vary"], v))} for _l, _s, v in variants_of(f)]
        elif f["kind"] in ("sarr", "fill"):
            q = "const " if f["kind"] == "sarr" else ""
            fa = ", %s factor" % f["factor"] if f.get("factor") else ""
            d["decl"] = "%s %s(%s%s *values, int nvalues%s)" % (rt, f["name"], q, f["T"], fa)
            gen = [{"decl": "(%s%s *values%s%s)" % (q, f["T"], "+rank(%d)" % r if r else "",
                                                   ", %s factor" % f["ftypes"][k] if f.get("factor") else "")}
                   for k, (_l, _s, r) in enumerate(variants_of(f))]
        elif f["kind"] == "arank":
            second = ", const %s *other+dimension(..)" % f["T"] if f["two"] else ""
            d["decl"] = "%s %s(const %s *values+dimension(..)%s, int nvalues)" % (rt, f["name"], f["T"], second)
            d["options"] = {"F_assumed_rank_min": f["rmin"], "F_assumed_rank_max": f["rmax"]}
            gen = None
        else:
            d["decl"] = "void %s(%sname, %s value)" % (f["name"], f["stype"], f["T"])
            gen = [{"decl": "(%s value)" % v} for _l, _s, v in variants_of(f)]
        if gen is not None:
            for g, (_l, suffix, _v) in zip(gen, variants_of(f)):
                if suffix:
                    g["function_suffix"] = suffix
            d["fortran_generic"] = gen
        decls.append(d)
    doc = {"library": "GenLib", "language": cs["lang"], "cxx_header": "genlib.h",
           "options": dict({"wrap_python": False, "wrap_lua": False}, **(options or {})), "declarations": decls}
    return yaml.safe_dump(doc, sort_keys=False, width=1000)


# ---------------------------------------------------------------------------
# subject library

def c_show(T, expr):
    if is_float(T):
        return 'printf("A %%.17g\\n", (double)(%s));' % expr
    return 'printf("A %%ld\\n", (long)(%s));' % expr


def subject(cs):
    cxx = cs["lang"] == "c++"
    hdr = ["#ifndef GENLIB_H", "#define GENLIB_H"] + (["#include <string>"] if cxx else [])
    impl = ['#include "genlib.h"', "#include <stdio.h>", "#include <string.h>", "static double vf_rv = 0.0;",
            "void vf_next_rv(double v) { vf_rv = v; }"]
    for f in cs["funcs"]:
        rt = f["ret"] or "void"
        retn = "    fflush(stdout);\n" + ("    return (%s)vf_rv;\n" % rt if f["ret"] else "")
        if f["kind"] == "coerce":
            sig = "%s %s(%s)" % (rt, f["name"], ", ".join("%s a%d" % (t, i) for i, t in enumerate(f["base"])))
            body = "".join("    %s\n" % c_show(t, "a%d" % i) for i, t in enumerate(f["base"]))
        elif f["kind"] == "sarr":
            sig = "%s %s(const %s *values, int nvalues%s)" % (rt, f["name"], f["T"], ", %s factor" % f["factor"] if f.get("factor") else "")
            body = '    printf("N %%d\\n", nvalues);\n    for (int i = 0; i < nvalues; i++) { %s }\n' % c_show(f["T"], "values[i]")
            if f.get("factor"):
                body += "    %s\n" % c_show(f["factor"], "factor")
        elif f["kind"] == "fill":
            sig = "void %s(%s *values, int nvalues)" % (f["name"], f["T"])
            body = ('    printf("N %%d\\n", nvalues);\n    for (int i = 0; i < nvalues; i++) { %s values[i] = (%s)(vf_rv + i); }\n'
                    % (c_show(f["T"], "values[i]"), f["T"]))
        elif f["kind"] == "arank":
            second = ", const %s *other" % f["T"] if f["two"] else ""
            sig = "%s %s(const %s *values%s, int nvalues)" % (rt, f["name"], f["T"], second)
            body = '    printf("N %%d\\n", nvalues);\n    for (int i = 0; i < nvalues; i++) { %s }\n' % c_show(f["T"], "values[i]")
            if f["two"]:
                body += '    for (int i = 0; i < nvalues; i++) { %s }\n' % c_show(f["T"], "other[i]")
        else:
            sig = "void %s(%sname, %s value)" % (f["name"], f["stype"], f["T"])
            if "std::string" in f["stype"]:
                body = '    printf("S %d:%s|\\n", (int)name.size(), name.c_str());\n'
            else:
                body = '    printf("S %d:%s|\\n", (int)strlen(name), name);\n'
            body += "    %s\n" % c_show(f["T"], "value")
        hdr.append(sig + ";")
        impl.append('%s\n{\n    printf("E %s\\n");\n%s%s}' % (sig, f["name"], body, retn))
    hdr += ["#ifdef __cplusplus", 'extern "C"', "#endif", "void vf_next_rv(double v);", "#endif"]
    return "\n".join(hdr) + "\n", "\n\n".join(impl) + "\n"


# ---------------------------------------------------------------------------
# Fortran driver

def f_lit(T, v):
    kind = KIND[T]
    if is_float(T):
        s = repr(abs(float(v)))
        return ("(-%s_%s)" if float(v) < 0 else "%s_%s") % (s, kind)
    if v < 0:
        return "(-%d_%s)" % (-v, kind)
    return "%d_%s" % (v, kind)


def f_array(T, vals, shape):
    ctor = "[%s :: %s]" % (fdecl(T), ", ".join(f_lit(T, v) for v in vals))
    if len(shape) <= 1:
        return ctor
    return "reshape(%s, [%s])" % (ctor, ", ".join(str(s) for s in shape))


def f_show(T, expr):
    if is_float(T):
        return "    call vf_show_d(real(%s, C_DOUBLE))" % expr
    return "    call vf_show_i(int(%s, C_LONG))" % expr


def f_driver(cs):
    body = []
    for k, c in enumerate(cs["calls"]):
        f = cs["funcs"][c["f"]]
        label, suffix, v = variants_of(f)[c["v"]]
        uname = drivers.un_camel(f["name"]).lower()
        callee = uname if c["via"] == "generic" else uname + suffix
        body.append("  call vf_site(%d_C_INT)" % k)
        body.append("  block")
        decl, pre, args, post = [], [], [], []
        if f["kind"] == "coerce":
            types = list(f["base"])
            for i, t in zip(f["vary"], v):
                types[i] = t
            args = [f_lit(t, x) for t, x in zip(types, c["vals"])]
        elif f["kind"] in ("sarr", "fill", "arank"):
            shape = c["shape"]
            dims = "" if not shape else "(%s)" % ", ".join(str(s) for s in shape)
            decl.append("    %s :: arr%s" % (fdecl(f["T"]), dims))
            pre.append("    arr = %s" % (f_array(f["T"], c["vals"], shape) if shape else f_lit(f["T"], c["vals"][0])))
            args = ["arr"]
            if f["kind"] == "arank" and f["two"]:
                decl.append("    %s :: oth%s" % (fdecl(f["T"]), dims))
                pre.append("    oth = %s" % (f_array(f["T"], c["vals2"], shape) if shape else f_lit(f["T"], c["vals2"][0])))
                args.append("oth")
            args.append("%d_C_INT" % nelem(shape))
            if f.get("factor"):
                args.append(f_lit(f["ftypes"][c["v"]], c["fval"]))
            if f["kind"] == "fill":
                if shape:
                    decl.append("    integer :: i")
                    flat = "reshape(arr, [%d])" % nelem(shape)
                    decl.append("    %s :: flat(%d)" % (fdecl(f["T"]), nelem(shape)))
                    post += ["    flat = %s" % flat, "    do i = 1, %d" % nelem(shape), "  " + f_show(f["T"], "flat(i)"), "    end do"]
                else:
                    post.append(f_show(f["T"], "arr"))
        else:
            decl.append("    character(len=%d) :: txt" % c["flen"])
            pre.append("    txt(:) = '%s'" % c["text"])
            args = ["txt", f_lit(v, c["vals"][0])]
        pre.append("    call vf_next_rv(%s)" % f_lit("double", float(c["rv"])))
        if f["ret"]:
            decl.append("    %s :: rv" % fdecl(f["ret"]))
            pre.append("    rv = %s(%s)" % (callee, ", ".join(args)))
            post.insert(0, f_show(f["ret"], "rv"))
        else:
            pre.append("    call %s(%s)" % (callee, ", ".join(args)))
        body += decl + pre + post + ["  end block"]
    src = ["subroutine vf_body", "  use iso_c_binding", "  use genlib_mod", "  implicit none", "  interface",
           "    subroutine vf_next_rv(v) bind(C, name='vf_next_rv')", "      import", "      real(C_DOUBLE), value :: v", "    end subroutine",
           "    subroutine vf_site(k) bind(C, name='vf_site')", "      import", "      integer(C_INT), value :: k", "    end subroutine",
           "    subroutine vf_show_d(v) bind(C, name='vf_show_d')", "      import", "      real(C_DOUBLE), value :: v", "    end subroutine",
           "    subroutine vf_show_i(v) bind(C, name='vf_show_i')", "      import", "      integer(C_LONG), value :: v", "    end subroutine",
           "  end interface"] + body + ["end subroutine vf_body", "program vf_main", "  call vf_body", "end program vf_main"]
    return "\n".join(src) + "\n"


F_SUPPORT = r"""#include <stdio.h>
void vf_site(int k) { printf("C %d\n", k); fflush(stdout); }
void vf_show_d(double v) { printf("O %.17g\n", v); fflush(stdout); }
void vf_show_i(long v) { printf("O %ld\n", v); fflush(stdout); }
"""


def _ctext(T, v):
    """Text of `v` after it was stored in a C variable of type T."""
    if T == "float":
        v = _struct.unpack("<f", _struct.pack("<f", float(v)))[0]
    if is_float(T):
        return "%.17g" % float(v)
    return "%d" % int(v)


def model(cs):
    lines = []
    for k, c in enumerate(cs["calls"]):
        f = cs["funcs"][c["f"]]
        lines.append("C %d" % k)
        lines.append("E " + f["name"])
        after = []
        if f["kind"] == "coerce":
            lines += ["A " + _ctext(t, x) for t, x in zip(f["base"], c["vals"])]
        elif f["kind"] in ("sarr", "arank"):
            lines.append("N %d" % nelem(c["shape"]))
            lines += ["A " + _ctext(f["T"], x) for x in c["vals"]]
            if f.get("factor"):
                lines.append("A " + _ctext(f["factor"], c["fval"]))
            if f["kind"] == "arank" and f["two"]:
                lines += ["A " + _ctext(f["T"], x) for x in c["vals2"]]
        elif f["kind"] == "fill":
            lines.append("N %d" % nelem(c["shape"]))
            lines += ["A " + _ctext(f["T"], x) for x in c["vals"]]
            after = ["O " + _ctext(f["T"], c["rv"] + i) for i in range(nelem(c["shape"]))]
        else:
            text = c["text"].rstrip(" ")
            lines.append("S %d:%s|" % (len(text), text))
            lines.append("A " + _ctext(f["T"], c["vals"][0]))
        if f["ret"]:
            lines.append("O " + _ctext(f["ret"], c["rv"]))
        lines += after
    return lines


def build_and_run(work, cs, gen_files):
    hdr, impl = subject(cs)
    cxx = cs["lang"] == "c++"
    open(os.path.join(work, "genlib.h"), "w").write(hdr)
    open(os.path.join(work, "genlib." + ("cpp" if cxx else "c")), "w").write(impl)
    objs = []

    def cc(cmd, src):
        obj = os.path.splitext(os.path.basename(src))[0] + ".o"
        rc, so, se = drivers.run_cmd(cmd + drivers.SAN + ["-g", "-I", ".", "-c", src, "-o", obj], work)
        if rc != 0:
            return "%s does not compile: %s" % (src, (se or so)[-1500:])
        objs.append(obj)
        return None
    err = cc(["g++", "-std=c++11"] if cxx else ["gcc", "-std=c99"], "genlib." + ("cpp" if cxx else "c"))
    if err:
        return dict(stage="harness", detail=err, stream=[])
    for fn in sorted(gen_files):
        if fn.endswith((".cpp", ".c")) and not fn.startswith("genlib."):
            err = cc(["g++", "-std=c++11"] if fn.endswith(".cpp") else ["gcc", "-std=c99"], fn)
            if err:
                return dict(stage="wrapper-build", detail=err, stream=[])
    for fn in sorted(gen_files):
        if fn.endswith(".f"):
            err = cc(["gfortran", "-cpp", "-ffree-form"], fn)
            if err:
                return dict(stage="wrapper-build", detail=err, stream=[])
    open(os.path.join(work, "vf_fsupport.c"), "w").write(F_SUPPORT)
    open(os.path.join(work, "drv.f90"), "w").write(f_driver(cs))
    err = cc(["gcc", "-std=c99"], "vf_fsupport.c")
    if err:
        return dict(stage="harness", detail=err, stream=[])
    err = cc(["gfortran", "-ffree-form", "-ffree-line-length-none"], "drv.f90")
    if err:
        return dict(stage="driver-build", detail=err, stream=[])
    rc, so, se = drivers.run_cmd(["gfortran"] + drivers.SAN + objs + ["-o", "drv", "-lstdc++"], work)
    if rc != 0:
        return dict(stage="link", detail=(se or so)[-1200:], stream=[])
    env = dict(os.environ, ASAN_OPTIONS="detect_leaks=1:halt_on_error=1:exitcode=97")
    rc, so, se = drivers.run_cmd([os.path.join(work, "drv")], work, timeout=60, env=env)
    return dict(stage="run", detail="" if rc == 0 else "exit %d: %s" % (rc, se[-800:]), rc=rc,
                stream=[l for l in so.split("\n") if l.strip()])


def _job(job):
    idx, cs, options = job
    labels, nts = [], []
    for c in cs["calls"]:
        f = cs["funcs"][c["f"]]
        label, suffix, v = variants_of(f)[c["v"]]
        labels.append("generic:%s:%s" % (f["kind"], c["via"]))
        nts.append(("generic", cs["lang"], repr(sorted((options or {}).items())), f["kind"], label, c["via"], f.get("T") or tuple(f.get("base", ())), f["ret"]))
    out = dict(idx=idx, ncalls=len(cs["calls"]), problems=[], labels=labels, nontrivial=nts,
               sample=dict(front="fortran", generic_funcs=cs["funcs"][:2], call=cs["calls"][0], options=options))
    work = tempfile.mkdtemp(prefix="vfgn_", dir=core.scratch_root())
    case_ = dict(generic_case=cs, options=options)
    try:
        r = shroud_run.run_yaml(yaml_text(cs, options), [], workdir=work, name="genlib")
        if r.status != "ok":
            out["problems"].append(("generic:shroud", case_, "Shroud stops on a fortran_generic / assumed-rank library: " + r.describe()))
            return out
        outd = os.path.join(work, "out")
        res = build_and_run(outd, cs, sorted(os.listdir(outd)))
        if res["stage"] == "harness":
            raise core.HarnessError(res["detail"])
        if res["stage"] != "run":
            out["problems"].append(("generic:" + res["stage"], case_, "%s: %s" % (res["stage"], res["detail"][-1200:])))
            return out
        want, got = model(cs), res["stream"]
        if got != want:
            i = next((k for k, (a, b) in enumerate(zip(got, want)) if a != b), min(len(got), len(want)))
            site = max([int(l.split()[1]) for l in want[:i + 1] if l.startswith("C ")] or [0])
            c = cs["calls"][site] if site < len(cs["calls"]) else None
            what = "?"
            if c:
                f = cs["funcs"][c["f"]]
                what = "%s %s via %s" % (f["kind"], variants_of(f)[c["v"]][0], c["via"])
            out["problems"].append(("generic:%s" % (what.split()[0]), case_,
                                    "call %d (%s): expected line %r, got %r (%s)" % (site, what, want[i:i + 1], got[i:i + 1], res["detail"])))
        elif res.get("rc"):
            out["problems"].append(("generic:exit", case_, res["detail"]))
    finally:
        shutil.rmtree(work, ignore_errors=True)
    return out


def minimise(cs, options, key):
    """Structural reduction: one function, then one call, as long as the same failure key remains."""
    def fails(c2):
        o = _job((0, c2, options))
        return any(k == key for k, _c, _n in o["problems"])
    best = cs
    for fi in range(len(cs["funcs"])):
        calls = [dict(c, f=0) for c in best["calls"] if c["f"] == fi] if len(best["funcs"]) > 1 else None
        if not calls:
            continue
        c2 = dict(best, funcs=[best["funcs"][fi]], calls=calls)
        if fails(c2):
            best = c2
            break
    if len(best["calls"]) > 1:
        for c in best["calls"]:
            c2 = dict(best, calls=[c])
            if fails(c2):
                best = c2
                break
    return best


def run_generics(ctx, n, configs=(None,)):
    jobs = []
    for lang in ("c++", "c"):
        # every kind in turn, then mixed libraries
        for kind in KINDS + [None]:
            for cs in smallgen.sample(case(lang, kind), ctx.seed + 1300 + len(jobs), max(1, n // 3) if kind else n):
                for options in configs:
                    jobs.append((len(jobs), cs, options))
    seen = set()
    for job, out in zip(jobs, core.pool_map(_job, jobs)):
        for lb, nt in zip(out["labels"], out["nontrivial"]):
            ctx.case(n=1, label=lb, nontrivial=nt)
        ctx.case(n=0, sample=out["sample"])
        for key, case_, note in out["problems"]:
            if key in seen:
                continue
            seen.add(key)
            small = minimise(case_["generic_case"], case_["options"], key)
            ctx.failure(key, dict(generic_case=small, options=case_["options"]), expected="stream predicted by the reference model",
                        observed=note, note=note)


def replay_case(ctx, rec):
    c = rec["case"]
    out = _job((0, c["generic_case"], c.get("options")))
    for key, case_, note in out["problems"]:
        ctx.failure(key, case_, observed=note, note=note)
