"""C and Fortran drivers for xlib models, written against the DOCUMENTED user API
only (names from the documented templates, Fortran kinds from the C type -> kind
table of docs/types.rst), plus build-and-run."""
import os
import subprocess

from . import xlib
from .xlib import INT_TYPES, FLT_TYPES, un_camel

PREFIX = "XLI_"

VF_MOD = r"""
module vf_mod
  use iso_c_binding
  implicit none
  interface
    subroutine vf_callsite(site) bind(C, name="vf_callsite")
      import
      integer(C_INT), value :: site
    end subroutine
    subroutine vf_oi(slot, v) bind(C, name="vf_oi")
      import
      integer(C_INT), value :: slot
      integer(C_LONG_LONG), value :: v
    end subroutine
    subroutine vf_od(slot, v) bind(C, name="vf_od")
      import
      integer(C_INT), value :: slot
      real(C_DOUBLE), value :: v
    end subroutine
    subroutine vf_ob(slot, v) bind(C, name="vf_ob")
      import
      integer(C_INT), value :: slot
      integer(C_INT), value :: v
    end subroutine
    subroutine vf_oc(slot, v) bind(C, name="vf_oc")
      import
      integer(C_INT), value :: slot
      integer(C_INT), value :: v
    end subroutine
    subroutine vf_os(slot, s, n) bind(C, name="vf_os")
      import
      integer(C_INT), value :: slot
      character(kind=C_CHAR) :: s(*)
      integer(C_INT), value :: n
    end subroutine
    subroutine vf_oai(slot, n, v) bind(C, name="vf_oai")
      import
      integer(C_INT), value :: slot
      integer(C_INT), value :: n
      integer(C_LONG_LONG) :: v(*)
    end subroutine
    subroutine vf_oad(slot, n, v) bind(C, name="vf_oad")
      import
      integer(C_INT), value :: slot
      integer(C_INT), value :: n
      real(C_DOUBLE) :: v(*)
    end subroutine
  end interface
end module vf_mod
"""




# ---------------------------------------------------------------------------
# C driver

def obs_c(T, slot, expr):
    if T in INT_TYPES:
        return ("vf_oi(%d, (long long)(%s));" if INT_TYPES[T][3] else "vf_ou(%d, (unsigned long long)(%s));") % (slot, expr)
    if T in FLT_TYPES:
        return "vf_od(%d, (double)(%s));" % (slot, expr)
    if T == "bool":
        return "vf_ob(%d, (%s) ? 1 : 0);" % (slot, expr)
    if T == "char":
        return "vf_oc(%d, (int)(unsigned char)(%s));" % (slot, expr)
    raise ValueError(T)


def co(x):
    """C expression of driver object slot x (int literal or expression text)."""
    return "obj[%d]" % x if isinstance(x, int) else "obj[%s]" % x


def fo(x):
    return "obj(%d)" % (x + 1) if isinstance(x, int) else "obj(%s + 1)" % x


def c_scope(lib, f):
    """{C_name_scope}: class name for members (documented)."""
    return (f["cls"] + "_") if f.get("cls") and f["kind"] in ("ctor", "method", "smethod") else ""


def c_fname(lib, f, call=None):
    base = {"ctor": "ctor", "dtor": "dtor"}.get(f["kind"], un_camel(f["name"]))
    suf = f.get("suffix")
    if f.get("tmpl"):
        return PREFIX + base + f["tmpl"]["suffix"]      # {function_suffix}{template_suffix}
    if suf is None and "ovl_pos_base" in f:
        # documented default: the position in the overload set, counting every default-argument arity
        k = f["ovl_pos_base"]
        if f.get("ndefault") and call is not None:
            k += call["nargs"] - (len(f["params"]) - f["ndefault"])
        return PREFIX + c_scope(lib, f) + base + "_%d" % k
    if suf is None and f.get("noverload", 1) > 1:
        suf = "_%d" % f["overload_index"]          # documented default: sequence number
    if f.get("ndefault") and call is not None:
        # one C function per arity, numbered from the fewest arguments
        suf = (suf or "") + "_%d" % (call["nargs"] - (len(f["params"]) - f["ndefault"]))
    return PREFIX + c_scope(lib, f) + base + (suf or "")


def c_op_lines(lib, op):
    """C statements performing one operation of the plan (without the call-site marker)."""
    out = []
    if op["kind"] == "del":
        out.append("    %s%s_dtor(&%s);" % (PREFIX, op["cls"], co(op["obj"])))
        return out
    f = op["f"]
    call = f["calls"][op["k"]]
    ins, outs = call["inputs"], call["outputs"]
    decl, args, post = [], [], []
    if op["kind"] == "mcall":
        args.append("&" + co(op["obj"]))
    for idx, p in enumerate(f["params"]):
        row, T, nm = p["row"], p["T"], p["name"]
        v = "v%d" % idx
        if "nargs" in call and idx >= call["nargs"]:
            continue                       # omitted: the library's default applies
        if row in ("K1ptr", "K1ref"):
            args.append("&" + co(op["objs"][nm]))
        elif p.get("implied_of"):
            args.append("%d" % len(ins[p["implied_of"]]))     # the C API shows implied arguments
        elif row == "N1" and p.get("enum"):
            args.append(PREFIX + xlib.enum_member(ins[nm], idx))    # the generated enumerator, as a caller writes it
        elif p.get("size_for") or row in ("N1", "B1", "S1c"):
            args.append(xlib.c_lit(T, ins[nm]))
        elif row == "N2in":
            decl.append("%s %s = %s;" % (T, v, xlib.c_lit(T, ins[nm])))
            args.append("&" + v)
        elif row in ("N2out", "N2refout", "B1out"):
            decl.append("%s %s = %s;" % (T, v, "0"))
            args.append("&" + v)
            post.append(obs_c(T, idx, v))
        elif row in ("N2inout", "N2ref", "B1inout"):
            decl.append("%s %s = %s;" % (T, v, xlib.c_lit(T, ins[nm])))
            args.append("&" + v)
            post.append(obs_c(T, idx, v))
        elif row in ("S1in", "S3in"):
            args.append(xlib.c_str(ins[nm]["text"]))
        elif row == "S3val":
            decl.append("char %s[64] = %s;" % (v, xlib.c_str(ins[nm]["text"])))
            args.append(v)
        elif row in ("S1out", "S3out"):
            decl.append("char %s[64]; memset(%s, '#', 63); %s[63] = 0;" % (v, v, v))
            args.append(v)
            post.append("vf_os(%d, %s, -1);" % (idx, v))
        elif row in ("S3inout", "S1inout"):
            decl.append("char %s[64] = %s;" % (v, xlib.c_str(ins[nm]["text"])))
            args.append(v)
            post.append("vf_os(%d, %s, -1);" % (idx, v))
        elif row in ("N3in", "N3inout"):
            vals = ins[nm]
            decl.append("%s %s[8] = {%s};" % (T, v, ", ".join(xlib.c_lit(T, x) for x in vals) or "0"))
            args.append(v)
            if row == "N3inout":
                post.append(obs_arr_c(T, idx, v, len(vals)))
        elif row == "N3out":
            decl.append("%s %s[24] = {0};" % (T, v))
            args.append(v)
            post.append(obs_arr_c(T, idx, v, len(outs[nm])))
    if op["kind"] in ("new", "make"):
        args.append("&" + co(op["obj"]))        # the capsule the wrapper fills in
    callx = "%s(%s)" % (c_fname(lib, f, call), ", ".join(args))
    r = f["ret"]
    out.append("    {")
    out += ["        " + d for d in decl]
    if op["kind"] == "make":
        out.append("        %s;" % callx)
        out.append("        vf_oo_%s(-1, %s.addr);" % (op["cls"], co(op["obj"])))
    elif r is None:
        out.append("        %s;" % callx)
    elif r["row"] in ("N", "B", "C"):
        out.append("        %s rv = %s;" % (r["T"], callx))
        out.append("        " + obs_c(r["T"], -1, "rv"))
    else:
        out.append("        const char *rv = %s;" % callx)
        out.append("        vf_os(-1, rv, -1);")
    out += ["        " + x for x in post]
    out.append("    }")
    return out


def c_driver(lib):
    out = ["#include <stdio.h>", "#include <string.h>", "#include <stdbool.h>", "#include <stdint.h>", "#include <stddef.h>",
           '#include "wrap%s.h"' % lib["name"]]
    for c in lib.get("classes", []):
        out.append('#include "wrap%s.h"' % c["name"])
        out.append("void vf_oo_%s(int slot, void *p);" % c["name"])
    out += ['#include "vf_support.h"', "int main(void)", "{"]
    nobj = sum(1 for op in xlib.plan(lib) if op["kind"] in ("new", "make"))
    for c in lib.get("classes", []):
        out.append("    %s%s obj[%d];" % (PREFIX, c["name"], max(1, nobj)))
    for site, op in enumerate(xlib.plan(lib)):
        out.append("    vf_callsite(%d);" % site)
        out += c_op_lines(lib, op)
    out += ["    vf_live_report();", "    return 0;", "}"]
    return "\n".join(out) + "\n"


def obs_arr_c(T, slot, v, n):
    if T in FLT_TYPES:
        return "{ double t[24]; int i; for (i = 0; i < %d; i++) t[i] = (double) %s[i]; vf_oad(%d, %d, t); }" % (n, v, slot, n)
    return "{ long long t[24]; int i; for (i = 0; i < %d; i++) t[i] = (long long) %s[i]; vf_oai(%d, %d, t); }" % (n, v, slot, n)


# ---------------------------------------------------------------------------
# Fortran driver

def f_kind(T):
    if T in INT_TYPES:
        return INT_TYPES[T][1]
    return FLT_TYPES[T][1]


def f_decl(T):
    if T in INT_TYPES:
        return "integer(%s)" % f_kind(T)
    if T in FLT_TYPES:
        return "real(%s)" % f_kind(T)
    if T == "bool":
        return "logical"
    if T == "char":
        return "character"
    raise ValueError(T)


def f_lit(T, v):
    if T in INT_TYPES:
        k = f_kind(T)
        if v < 0:
            return "(-%d_%s - 1_%s)" % (-(v + 1), k, k)
        return "%d_%s" % (v, k)
    if T in FLT_TYPES:
        k = f_kind(T)
        s = repr(abs(float(v)))
        if "e" not in s and "." not in s:
            s += ".0"
        neg = str(float(v)).startswith("-")
        return ("(-%s_%s)" if neg else "%s_%s") % (s, k)
    if T == "bool":
        return ".true." if v else ".false."
    if T == "char":
        return "'%s'" % v
    raise ValueError(T)


def f_str(s):
    return "'" + s.replace("'", "''") + "'"


def obs_f(T, slot, expr):
    if T in INT_TYPES:
        return "call vf_oi(%d, int(%s, C_LONG_LONG))" % (slot, expr)
    if T in FLT_TYPES:
        return "call vf_od(%d, real(%s, C_DOUBLE))" % (slot, expr)
    if T == "bool":
        return "call vf_ob(%d, merge(1_C_INT, 0_C_INT, %s))" % (slot, expr)
    if T == "char":
        return "call vf_oc(%d, int(iachar(%s), C_INT))" % (slot, expr)
    raise ValueError(T)


def obs_arr_f(T, slot, v):
    if T in FLT_TYPES:
        return "call vf_oad(%d, size(%s, kind=C_INT), real(%s, C_DOUBLE))" % (slot, v, v)
    return "call vf_oai(%d, size(%s, kind=C_INT), int(%s, C_LONG_LONG))" % (slot, v, v)


def f_procname(lib, f):
    suf = f.get("suffix")
    if f.get("tmpl"):
        # one generic interface named after the template, except when the result is templated
        # (a generic cannot be resolved by its result) or there is one instantiation only: then the specific names are the API
        if f["tmpl"]["templated_result"] or f["tmpl"]["ninst"] == 1:
            return (un_camel(f["name"]) + f["tmpl"]["suffix"]).lower()
        return un_camel(f["name"]).lower()
    if f.get("noverload", 1) > 1 or f.get("ndefault"):
        return un_camel(f["name"]).lower()        # documented: the generic name is the C++ name
    return (un_camel(f["name"]) + (suf or "")).lower()


def f_op_lines(lib, op):
    """Fortran statements performing one operation of the plan."""
    body = []
    if op["kind"] == "del":
        body.append("  call %s%%dtor()" % fo(op["obj"]))
        return body
    f = op["f"]
    call = f["calls"][op["k"]]
    ins, outs = call["inputs"], call["outputs"]
    decl, pre, args, post = [], [], [], []
    for idx, p in enumerate(f["params"]):
        row, T, nm = p["row"], p["T"], p["name"]
        v = "v%d" % idx
        if p.get("implied_of") or row == "H1out":
            continue                      # implied and hidden arguments are not part of the Fortran API
        if "nargs" in call and idx >= call["nargs"]:
            continue                      # omitted: the library's default applies
        if row in ("K1ptr", "K1ref"):
            args.append(fo(op["objs"][nm]))
        elif row == "P2out":
            decl.append("%s, pointer :: %s(%s)" % (f_decl(T), v, ",".join(":" * p["rank"])))
            args.append(v)
            post.append("call vf_oai(%d, %d, int(shape(%s), C_LONG_LONG))" % (idx, p["rank"], v))
            post.append(obs_arr_f(T, idx, v))
        elif row == "N1" and p.get("enum"):
            args.append(xlib.enum_member(ins[nm], idx).lower())     # the generated parameter, as a caller writes it
        elif p.get("size_for") or row in ("N1", "N2in", "B1"):
            args.append(f_lit(T, ins[nm]))
        elif row == "S1c":
            args.append(f_lit("char", ins[nm]))
        elif row in ("N2out", "N2refout", "B1out"):
            decl.append("%s :: %s" % (f_decl(T), v))
            args.append(v)
            post.append(obs_f(T, idx, v))
        elif row in ("N2inout", "N2ref", "B1inout"):
            decl.append("%s :: %s" % (f_decl(T), v))
            pre.append("%s = %s" % (v, f_lit(T, ins[nm])))
            args.append(v)
            post.append(obs_f(T, idx, v))
        elif row in ("S1in", "S3in", "S3val"):
            decl.append("character(len=%d) :: %s" % (ins[nm]["flen"], v))
            pre.append("%s(:) = %s" % (v, f_str(ins[nm]["text"])))
            args.append(v)
        elif row in ("S1out", "S3out"):
            decl.append("character(len=%d) :: %s" % (outs[nm]["flen"], v))
            pre.append("%s(:) = repeat('#', %d)" % (v, outs[nm]["flen"]))
            args.append(v)
            post.append("call vf_os(%d, %s, len(%s, kind=C_INT))" % (idx, v, v))
        elif row in ("S3inout", "S1inout"):
            decl.append("character(len=%d) :: %s" % (ins[nm]["flen"], v))
            pre.append("%s(:) = %s" % (v, f_str(ins[nm]["text"])))
            args.append(v)
            post.append("call vf_os(%d, %s, len(%s, kind=C_INT))" % (idx, v, v))
        elif row in ("V1in", "V1inout"):
            vals = ins[nm]
            decl.append("%s :: %s(%d)" % (f_decl(T), v, len(vals)))
            if vals:
                pre.append("%s = [%s]" % (v, ", ".join(f_lit(T, x) for x in vals)))
            args.append(v)
            if row == "V1inout":
                post.append(obs_arr_f(T, idx, "%s(1:%d)" % (v, min(len(vals), len(outs[nm])))))
        elif row == "V1out":
            ext = outs[nm + "#extent"]
            decl.append("%s :: %s(%d)" % (f_decl(T), v, ext))
            args.append(v)
            post.append(obs_arr_f(T, idx, "%s(1:%d)" % (v, min(ext, len(outs[nm])))))
        elif row == "V1outalloc":
            decl.append("%s, allocatable :: %s(:)" % (f_decl(T), v))
            args.append(v)
            post.append(obs_arr_f(T, idx, v))
        elif row == "V1inoutalloc":
            vals = ins[nm]
            decl.append("%s, allocatable :: %s(:)" % (f_decl(T), v))
            pre.append("allocate(%s(%d))" % (v, len(vals)))
            if vals:
                pre.append("%s = [%s]" % (v, ", ".join(f_lit(T, x) for x in vals)))
            args.append(v)
            post.append(obs_arr_f(T, idx, v))
        elif row in ("N3in", "N3inout"):
            vals = ins[nm]
            decl.append("%s :: %s(%d)" % (f_decl(T), v, len(vals)))
            if vals:
                pre.append("%s = [%s]" % (v, ", ".join(f_lit(T, x) for x in vals)))
            args.append(v)
            if row == "N3inout":
                post.append(obs_arr_f(T, idx, v))
        elif row == "N3out":
            # the documented dummy is an explicit-shape array with the declared extents
            decl.append("%s :: %s(%s)" % (f_decl(T), v, ",".join("%d" % e for e in xlib.extents(p, ins))))
            args.append(v)
            post.append(obs_arr_f(T, idx, v))
    r = f["ret"]
    if op["kind"] == "new":
        # documented: generic interface named after the derived type
        callx = "%s(%s)" % (op["cls"].lower(), ", ".join(args))
        stmt = "%s = %s" % (fo(op["obj"]), callx)
    elif op["kind"] == "make":
        stmt = "%s = %s(%s)" % (fo(op["obj"]), f_procname(lib, f), ", ".join(args))
        post.insert(0, "call vf_oo_%s(-1_C_INT, %s%%get_instance())" % (op["cls"].lower(), fo(op["obj"])))
    else:
        if op["kind"] == "mcall":
            target = "%s%%%s" % (fo(op["obj"]), f_procname(lib, f))
        elif f["kind"] == "smethod":
            target = "obj(1)%%%s" % f_procname(lib, f)        # nopass type-bound procedure
        else:
            target = f_procname(lib, f)
        callx = "%s(%s)" % (target, ", ".join(args))
        stmt = ("rv = " + callx) if r is not None else ("call " + callx)
        if r is not None and r["row"] == "P":
            stmt = "rv => " + callx
    body.append("  block")
    if r is not None and op["kind"] not in ("new", "make"):
        if r["row"] in ("N", "B", "C"):
            decl.append("%s :: rv" % f_decl(r["T"]))
            post.insert(0, obs_f(r["T"], -1, "rv"))
        elif r["row"] == "P":
            decl.append("%s, pointer :: rv(%s)" % (f_decl(r["T"]), ",".join(":" * r["rank"])))
            post.insert(0, obs_arr_f(r["T"], -1, "rv"))
            post.insert(0, "call vf_oai(-1, %d, int(shape(rv), C_LONG_LONG))" % r["rank"])
        elif r["row"] == "V":
            decl.append("%s, allocatable :: rv(:)" % f_decl(r["T"]))
            post.insert(0, obs_arr_f(r["T"], -1, "rv"))
        elif r["row"] in ("S1len", "S3len"):
            decl.append("character(len=%d) :: rv" % r["flen"])
            post.insert(0, "call vf_os(-1, rv, len(rv, kind=C_INT))")
        else:
            decl.append("character(len=:), allocatable :: rv")
            post.insert(0, "call vf_os(-1, rv, len(rv, kind=C_INT))")
    body += ["    " + d for d in decl]
    body += ["    " + x for x in pre]
    body.append("    " + stmt)
    body += ["    " + x for x in post]
    body.append("  end block")
    return body


def f_driver(lib):
    body = []
    nobj = sum(1 for op in xlib.plan(lib) if op["kind"] in ("new", "make"))
    head_decl = []
    for c in lib.get("classes", []):
        head_decl.append("  type(%s) :: obj(%d)" % (c["name"].lower(), max(1, nobj)))
    for site, op in enumerate(xlib.plan(lib)):
        body.append("  call vf_callsite(%d)" % site)
        body += f_op_lines(lib, op)
    body.append("  call vf_live_report()")
    src = ["subroutine vf_run()", "  use iso_c_binding", "  use vf_mod", "  use %s_mod" % lib["name"].lower(), "  implicit none"]
    src += ["  interface", "    subroutine vf_live_report() bind(C, name=\"vf_live_report\")", "    end subroutine"]
    for c in lib.get("classes", []):
        src += ["    subroutine vf_oo_%s(slot, p) bind(C, name=\"vf_oo_%s\")" % (c["name"].lower(), c["name"]),
                "      import", "      integer(C_INT), value :: slot", "      type(C_PTR), value :: p", "    end subroutine"]
    src += ["  end interface"]
    src += head_decl
    src += body
    src += ["end subroutine vf_run", "program vf_main", "  call vf_run()", "end program vf_main"]
    # free-form line length: wrap long lines defensively
    res = []
    for ln in src:
        while len(ln) > 120:
            cut = ln.rfind(",", 0, 118)
            if cut < 20:
                break
            res.append(ln[:cut + 1] + " &")
            ln = "      " + ln[cut + 1:]
        res.append(ln)
    return "\n".join(res) + "\n"


# ---------------------------------------------------------------------------
# build and run

SAN = ["-fsanitize=address", "-fno-omit-frame-pointer"]


def run_cmd(cmd, cwd, timeout=300, env=None):
    cp = subprocess.run(cmd, cwd=cwd, capture_output=True, text=True, timeout=timeout, env=env, errors="replace")
    return cp.returncode, cp.stdout, cp.stderr


def build_and_run(work, lib, gen_files, front, asan=False, run=True):
    """work: directory holding the generated wrapper files (gen_files = their names).
    Returns dict(stage, detail, stream)."""
    srcs = xlib.subject_sources(lib)
    drv = c_driver(lib) if front == "c" else f_driver(lib)
    return build_custom(work, srcs, lib["language"] == "c++", gen_files, front, drv, asan=asan, run=run)


def build_custom(work, srcs, cxx, gen_files, front, driver_text, asan=False, run=True, stdin_text=None):
    """Generic build: subject sources (dict name -> text, must contain xlib.c/.cpp and vf_support.*),
    generated wrapper files, a driver text.  Returns dict(stage, detail, stream)."""
    for fn, text in srcs.items():
        with open(os.path.join(work, fn), "w") as fp:
            fp.write(text)
    san = SAN if asan else []
    objs = []

    def compile_(cmd, src):
        obj = os.path.splitext(src)[0] + ".o"
        rc, so, se = run_cmd(cmd + san + ["-g", "-I", ".", "-c", src, "-o", obj], work)
        if rc != 0:
            return "%s does not compile: %s" % (src, (se or so)[-1500:])
        objs.append(obj)
        return None
    err = compile_(["gcc", "-std=c99"], "vf_support.c")
    if err:
        return dict(stage="harness", detail=err, stream=[])
    err = compile_(["g++", "-std=c++11"] if cxx else ["gcc", "-std=c99"], "xlib.cpp" if cxx else "xlib.c")
    if err:
        return dict(stage="harness", detail=err, stream=[])
    for fn in sorted(gen_files):
        if fn.endswith(".cpp"):
            err = compile_(["g++", "-std=c++11"], fn)
        elif fn.endswith(".c"):
            err = compile_(["gcc", "-std=c99"], fn)
        else:
            continue
        if err:
            return dict(stage="wrapper-build", detail=err, stream=[])
    if front == "c":
        with open(os.path.join(work, "drv.c"), "w") as fp:
            fp.write(driver_text)
        err = compile_(["gcc", "-std=c99"], "drv.c")
        if err:
            return dict(stage="driver-build", detail=err, stream=[])
        link = ["g++"] + san + objs + ["-o", "drv"]
    else:
        with open(os.path.join(work, "vf_mod.f90"), "w") as fp:
            fp.write(VF_MOD)
        err = compile_(["gfortran", "-ffree-form"], "vf_mod.f90")
        if err:
            return dict(stage="harness", detail=err, stream=[])
        for fn in sorted(gen_files):
            if fn.endswith(".f"):
                err = compile_(["gfortran", "-cpp", "-ffree-form"], fn)
                if err:
                    return dict(stage="wrapper-build", detail=err, stream=[])
        with open(os.path.join(work, "drv.f90"), "w") as fp:
            fp.write(driver_text)
        err = compile_(["gfortran", "-ffree-form", "-ffree-line-length-none"], "drv.f90")
        if err:
            return dict(stage="driver-build", detail=err, stream=[])
        link = ["gfortran"] + san + objs + ["-o", "drv", "-lstdc++"]
    rc, so, se = run_cmd(link, work)
    if rc != 0:
        return dict(stage="link", detail=(se or so)[-1500:], stream=[])
    if not run:
        return dict(stage="built", detail="", stream=[])
    env = dict(os.environ)
    if asan:
        env["ASAN_OPTIONS"] = "detect_leaks=1:halt_on_error=1"
    try:
        rc, so, se = run_cmd([os.path.join(work, "drv")], work, timeout=300, env=env)
    except subprocess.TimeoutExpired:
        return dict(stage="run", detail="driver timed out", stream=[])
    stream = [l for l in so.split("\n") if l]
    if rc != 0:
        return dict(stage="run", detail="driver exit status %s: %s" % (rc, se[-1500:]), stream=stream)
    return dict(stage="ok", detail="", stream=stream)
