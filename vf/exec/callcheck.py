"""Shared engine for C01 (Fortran front end) and C02 (C front end): generate
library models, wrap them with Shroud, build with the instrumented subject
library and a driver, compare the combined stream with the reference model."""
import copy
import os
import shutil
import tempfile

from .. import core, shroud_run, smallgen
from . import xlib, drivers


def wrap_and_run(lib, front, options=None, asan=False, keep=None):
    """-> dict(stage, detail, stream, expected)"""
    work = tempfile.mkdtemp(prefix="vfx_", dir=core.scratch_root())
    try:
        if front == "python":
            options = dict({"wrap_python": True, "wrap_c": False, "wrap_fortran": False, "PY_array_arg": "list"}, **(options or {}))
        if front == "lua":
            options = dict({"wrap_lua": True, "wrap_c": False, "wrap_fortran": False}, **(options or {}))
        ytext = xlib.to_yaml(lib, options)
        r = shroud_run.run_yaml(ytext, [], workdir=work, name="xlib")
        if r.status != "ok":
            return dict(stage="shroud", detail=r.describe(), stream=[], expected=[])
        outd = os.path.join(work, "out")
        gen = [f for f in os.listdir(outd)]
        if front == "python":
            from . import pyfront
            res = pyfront.build_and_run(outd, lib, gen, asan=asan)
            res["expected"] = pyfront.expected_stream(lib)
        elif front == "lua":
            from . import luafront
            res = luafront.build_and_run(outd, lib, gen, asan=asan)
            res["expected"] = luafront.expected_stream(lib)
        else:
            res = drivers.build_and_run(outd, lib, gen, front, asan=asan)
            res["expected"] = xlib.expected_stream(lib, "fortran" if front == "fortran" else "c")
        if keep:
            shutil.copytree(outd, keep, dirs_exist_ok=True)
        return res
    finally:
        shutil.rmtree(work, ignore_errors=True)


def split_calls(stream):
    """Group stream lines by call site."""
    calls = {}
    cur = None
    for ln in stream:
        if ln.startswith("C "):
            cur = int(ln.split()[1])
            calls[cur] = []
        elif cur is not None:
            calls[cur].append(ln)
    return calls


def judge(lib, res, front):
    """-> list of (key, note, site) - one per failing call site."""
    problems = []
    if res["stage"] in ("harness",):
        raise core.HarnessError(res["detail"])
    if res["stage"] in ("shroud", "wrapper-build", "driver-build", "link"):
        what = {"shroud": "Shroud stops on an admitted-grammar library",
                "wrapper-build": "generated wrapper does not compile",
                "driver-build": "driver written against the documented API does not compile",
                "link": "link fails (documented name not defined?)"}[res["stage"]]
        problems.append((res["stage"], "%s: %s" % (what, res["detail"][-900:]), None))
        return problems
    plan = the_plan(lib, front)
    exp = split_calls(res["expected"])
    got = split_calls(res["stream"])
    for site, op in enumerate(plan):
        f, k = op.get("f"), op.get("k")
        if f is None:
            f = dict(name="~" + op["cls"], params=[], ret=None, kind="dtor", fid=op["fid"])
        e, g = exp.get(site, []), got.get(site)
        if g is None:
            problems.append(("call-not-reached:" + rows_of(f), "call site %d (%s) was never reached: %s"
                             % (site, describe(f), res["detail"][-600:]), site))
            break
        if e != g:
            i = next((j for j, (a, b) in enumerate(zip(e, g)) if a != b), min(len(e), len(g)))
            exp_l = e[i] if i < len(e) else "(nothing)"
            got_l = g[i] if i < len(g) else "(nothing)"
            what = culprit(f, exp_l, got_l)
            if op.get("bad"):
                what = "bad-call:%s" % op["bad"]
            elif "split" in op and exp_l.startswith("O") and got_l.startswith("O"):
                pass
            problems.append(("%s:%s" % (what, "library-received" if exp_l[:1] in "AE" else "caller-got"),
                             "%s call %s of %s: expected stream line %r, observed %r" % (op["kind"], k, describe(f), exp_l, got_l), site))
    if not problems and res["stage"] == "ok":
        el = [l for l in res["expected"] if l.startswith("LIVE")]
        gl = [l for l in res["stream"] if l.startswith("LIVE")]
        if el != gl:
            problems.append(("live-objects", "live C++ objects at exit: expected %s, library reports %s" % (el, gl), None))
    if res["stage"] == "run" and not problems:
        problems.append(("driver-crash", "driver exits abnormally: " + res["detail"][-900:], None))
    return problems


def describe(f):
    try:
        return ("%s::" % f["cls"] if f.get("cls") else "") + xlib.decl_text(f)
    except Exception:
        return f.get("name", "?")


def the_plan(lib, front):
    if front == "lua":
        from . import luafront
        return luafront.lua_plan(lib)
    if front == "python":
        from . import pyfront
        return pyfront.py_plan(lib)
    return xlib.plan(lib)


def rows_of(f):
    return "+".join(sorted(set(p["row"] for p in f["params"])) or ["noargs"]) + "->" + (f["ret"]["row"] if f["ret"] else "void")


def culprit(f, exp_l, got_l):
    parts = exp_l.split()
    if parts and parts[0] in ("A", "O") and len(parts) > 1:
        if parts[1] == "rv":
            return "result:" + (f["ret"]["row"] if f["ret"] else "?")
        try:
            idx = int(parts[1])
            p = f["params"][idx]
            return "arg:%s:%s" % (p["row"], p["T"] if p["T"] in ("string", "char", "bool") else
                                  ("float" if p["T"] in xlib.FLT_TYPES else "int"))
        except (ValueError, IndexError):
            pass
    if parts and parts[0] == "E":
        return "entry"
    return "stream"


def minimise(lib, site, front, options, key):
    """Structural reduction: keep only the failing function and the failing call, then drop
    parameters that are not needed to reproduce the same key."""
    plan = the_plan(lib, front)
    if plan[site]["kind"] != "call" or plan[site].get("cls"):
        # class life cycles are reduced by dropping the plain functions only
        small = dict(lib, funcs=[])
        res = wrap_and_run(small, front, options)
        return small if any(p[0] == key for p in judge(small, res, front)) else lib
    f, k = plan[site]["f"], plan[site]["k"]
    if f.get("tmpl"):
        # the instantiations of one template stay together (their names depend on the whole list)
        small = dict(lib, classes=[], funcs=[copy.deepcopy(g) for g in lib["funcs"] if g.get("tmpl") and g["name"] == f["name"]])
        try:
            res = wrap_and_run(small, front, options)
            return small if any(p[0] == key for p in judge(small, res, front)) else lib
        except core.HarnessError:
            return lib
    small = dict(lib, classes=[], funcs=[dict(copy.deepcopy(f), calls=[copy.deepcopy(f["calls"][k])])])
    res = wrap_and_run(small, front, options)
    probs = judge(small, res, front)
    if not any(p[0] == key for p in probs):
        return lib
    best = small
    budget = 12
    fn = best["funcs"][0]
    i = 0
    while i < len(fn["params"]) and budget > 0:
        p = fn["params"][i]
        if p.get("implied_of") or p.get("size_for"):
            i += 1
            continue
        names = {p["name"], p.get("companion"), p.get("size_from")} - {None}
        cand = copy.deepcopy(best)
        cf = cand["funcs"][0]
        cf["params"] = [q for q in cf["params"] if q["name"] not in names]
        for c in cf["calls"]:
            for nm in names:
                c["inputs"].pop(nm, None)
                c["outputs"].pop(nm, None)
        budget -= 1
        res = wrap_and_run(cand, front, options)
        if res["stage"] == "harness":
            i += 1                      # the reduced library is not a valid subject: keep the parameter
            continue
        if any(pp[0] == key for pp in judge(cand, res, front)):
            best = cand
            fn = best["funcs"][0]
        else:
            i += 1
    return best


def _job(job):
    idx, lib, front, options, asan = job
    res = wrap_and_run(lib, front, options, asan=asan)
    probs = judge(lib, res, front)
    plan = the_plan(lib, front)
    out = dict(idx=idx, ncalls=len(plan), problems=[], labels=[], nontrivial=[], sample=None)
    for site, op in enumerate(plan):
        if op["kind"] in ("del",):
            out["labels"].append("op:del")
            continue
        f, k = op["f"], op["k"]
        out["labels"].append("op:" + op["kind"])
        if f["params"] or f["ret"] or op["kind"] != "call":
            out["nontrivial"].append((rows_of(f), tuple(sorted((p["row"], p["T"]) for p in f["params"])),
                                      f["ret"]["row"] if f["ret"] else "void", repr(sorted(options.items())) if options else "",
                                      op.get("split"), op.get("bad"), op.get("pos")))
        for p in f["params"]:
            out["labels"].append("row:" + ("E1" if p.get("enum") else p["row"]))
        out["labels"].append("ret:" + (("E" if f["ret"].get("enum") else f["ret"]["row"]) if f["ret"] else "void"))
    if plan and plan[0]["kind"] == "call":
        f, k = plan[0]["f"], plan[0]["k"]
        exp = split_calls(res["expected"]).get(0, [])
        out["sample"] = dict(front=front, options=options, decl=xlib.decl_text(f), call=f["calls"][k], expected_stream=exp)
    seen = set()
    for key, note, site in probs:
        if key in seen:
            continue
        seen.add(key)
        small = lib
        if site is not None:
            small = minimise(lib, site, front, options, key)
        out["problems"].append((key, dict(lib=small, front=front, options=options, asan=asan), note))
    return out


def run_engine(ctx, front, configs, nlibs, lang_choices, asan=False, **libkw):
    jobs = []
    i = 0
    for lang in lang_choices:
        libs = smallgen.sample(xlib.library(lang=lang, for_fortran=(front == "fortran"), **libkw), ctx.seed + len(jobs), nlibs)
        for lib in libs:
            for options in configs:
                lib2 = lib
                if options and options.get("F_CFI"):
                    lib2, nrem = xlib.without_vectors(lib)
                    ctx.extra["excluded_vector_with_cfi"] = ctx.extra.get("excluded_vector_with_cfi", 0) + nrem
                jobs.append((i, lib2, front, options, asan))
                i += 1
    ncalls = 0
    for out in core.pool_map(_job, jobs):
        ncalls += out["ncalls"]
        ctx.case(n=out["ncalls"], label=out["labels"])
        for nt in out["nontrivial"]:
            ctx.case(n=0, nontrivial=nt)
        if out["sample"]:
            ctx.case(n=0, sample=out["sample"])
        for key, case, note in out["problems"]:
            ctx.failure(key, case, expected="stream predicted by the reference model", observed=note, note=note)
    ctx.extra["libraries_built"] = ctx.extra.get("libraries_built", 0) + len(jobs)


def run_template_family(ctx, front, per_shape, configs=(None,)):
    """Function templates, every shape of xlib.TMPL_SHAPES in turn (Hypothesis' generate phase alone leaves the
    later shapes out of a few dozen draws)."""
    for k, shape in enumerate(xlib.TMPL_SHAPES):
        ctx.seed += 101 + k
        try:
            run_engine(ctx, front, list(configs), per_shape, ["c++"], with_template=shape, with_overloads=False,
                       with_class=False, nfunc=(0, 2))
        finally:
            ctx.seed -= 101 + k


def replay_case(ctx, rec):
    c = rec["case"]
    res = wrap_and_run(c["lib"], c["front"], c.get("options"), asan=c.get("asan", False))
    for key, note, site in judge(c["lib"], res, c["front"]):
        ctx.failure(key, c, observed=note, note=note)
