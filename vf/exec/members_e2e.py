"""Class member variables (getters / setters) and single inheritance, executed.

struct.rst "Member Variables" / appendix "Getter and Setter": a public data
member declared in a class gets a getter (and, unless +readonly, a setter):
Fortran `obj%get_<name>()` / `call obj%set_<name>(val)`, C
`{C_prefix}{Class}_get_<name>(&obj)` / `..._set_<name>(&obj, val)`, Python the
attribute `obj.<name>` (assignment to a +readonly member raises
AttributeError); `+name(x)` renames them.  struct.rst: a derived class is a
Fortran type extension / a Python subclass, so the base class's methods and
members are reachable through an instance of the derived class.

Hypothesis draws the classes and a history (new / set / get / peek / poke /
delete over two variables per class); the library prints the members it sees
in `peek`, the driver what the getters return; a Python model of the objects
predicts the stream.  Fronts: fortran (C01), c (C02), python (C03).
"""
import os
import shutil
import struct as _struct
import tempfile

from hypothesis import strategies as st

from .. import core, shroud_run, smallgen
from . import drivers

PREFIX = "MBR_"
KIND = {"int": "C_INT", "long": "C_LONG", "float": "C_FLOAT", "double": "C_DOUBLE", "short": "C_SHORT"}
TYPES = sorted(KIND)


def is_float(T):
    return T in ("float", "double")


@st.composite
def value(draw, T):
    if is_float(T):
        return draw(st.sampled_from([0.0, 0.25, -1.5, 2.75, 100.5, -0.125, 3.0, 1024.25]))
    if T == "short":
        return draw(st.sampled_from([0, 1, -1, 7, 300, -32767, 32767]))
    if T == "int":
        return draw(st.sampled_from([0, 1, -1, 42, -2147483647, 2147483647, 65536]))
    return draw(st.sampled_from([0, 1, -1, 42, 4294967296, -4294967297, 9007199254740993]))


@st.composite
def klass(draw, name, base, tag, ro_first=False):
    members = []
    for i in range(draw(st.integers(1, 3))):
        cname = "m_%s%d" % (tag, i)
        rename = draw(st.sampled_from([None, None, "%sval%d" % (tag, i)]))
        members.append(dict(T=draw(st.sampled_from(TYPES)), cname=cname, name=rename or cname,
                            renamed=bool(rename), readonly=(ro_first and i == 0) or draw(st.sampled_from([False, False, True]))))
    if all(m["readonly"] for m in members):
        members[-1]["readonly"] = False
    return dict(name=name, base=base, members=members)


def all_members(cs, cls):
    """Members visible through an instance of cls: the base's first."""
    c = next(k for k in cs["classes"] if k["name"] == cls)
    res = all_members(cs, c["base"]) if c["base"] else []
    return res + [dict(m, owner=cls) for m in c["members"]]


def init_value(cs, cls, m):
    """Value the constructor gives member m."""
    k = [x["cname"] for x in all_members(cs, cls)].index(m["cname"])
    v = (k + 1) * 11 + (100 if m["owner"] != cs["classes"][0]["name"] else 0)
    return v + 0.5 if is_float(m["T"]) else v


@st.composite
def case(draw, front, derived=None):
    derived = draw(st.booleans()) if derived is None else derived
    classes = [draw(klass("Shape", None, "s", ro_first=True))]
    if derived:
        classes.append(draw(klass("Circle", "Shape", "c")))
    cs = dict(front=front, classes=classes)
    slots = [(c["name"], i) for c in classes for i in range(2)]
    live = {}
    hist = []
    for _ in range(draw(st.integers(8, 20))):
        free = [s for s in slots if s not in live]
        ops = ((["new"] if live else ["new"] * 3) if free else []) + (["set", "set", "set", "get", "get", "get", "peek", "peek", "poke", "poke", "del"] if live else [])
        if front == "python" and live:
            ops.append("setro")
        if front in ("python", "c") and live:
            # a non-virtual method every class declares with the same signature: the object's own class answers
            ops += ["who", "who"]
        op = draw(st.sampled_from(ops))
        if op == "new":
            # (instances of the derived class first: the inherited members and methods are what is at stake)
            s = ([x for x in free if x[0] != "Shape"] or free)[0] if derived and not live else draw(st.sampled_from(free))
            live[s] = True
            hist.append(dict(op="new", cls=s[0], slot=s[1]))
            continue
        s = draw(st.sampled_from(sorted(live)))
        cls = s[0]
        # C has no inheritance: a C caller reaches only the class's own members / methods
        vis = [m for m in all_members(cs, cls) if front != "c" or m["owner"] == cls]
        h = dict(op=op, cls=cls, slot=s[1])
        if op == "set":
            cand = [m for m in vis if not m["readonly"]]
            if not cand:
                continue
            m = draw(st.sampled_from(cand))
            h.update(member=m["cname"], value=draw(value(m["T"])))
        elif op == "setro":
            cand = [m for m in vis if m["readonly"]]
            if not cand:
                continue
            h.update(member=draw(st.sampled_from(cand))["cname"])
        elif op == "get":
            h.update(member=draw(st.sampled_from(vis))["cname"])
        elif op == "peek":
            # the class's own peek, or (Fortran / Python) the inherited one
            h.update(which=draw(st.sampled_from([cls] + ([c["base"] for c in classes if c["name"] == cls and c["base"] and front != "c"]))))
        elif op == "poke":
            which = draw(st.sampled_from([cls] + ([c["base"] for c in classes if c["name"] == cls and c["base"] and front != "c"])))
            ms = all_members(cs, which)
            k = draw(st.integers(0, len(ms) - 1))
            h.update(which=which, idx=k, value=draw(st.sampled_from([0, 3, -7, 120, 12])))
        elif op == "who":
            pass
        else:
            del live[s]
        hist.append(h)
    for s in sorted(live):
        hist.append(dict(op="del", cls=s[0], slot=s[1]))
    cs["hist"] = hist
    return cs


# ---------------------------------------------------------------------------

def yaml_text(cs, options=None):
    import yaml
    decls = []
    for c in cs["classes"]:
        ds = [{"decl": "%s()" % c["name"]}, {"decl": "~%s()" % c["name"]}]
        for m in c["members"]:
            ds.append({"decl": "%s %s%s%s;" % (m["T"], m["cname"], " +readonly" if m["readonly"] else "",
                                              "+name(%s)" % m["name"] if m["renamed"] else "")})
        if cs["front"] != "fortran":
            ds.append({"decl": "void whoami() const"})
        ds.append({"decl": "void peek%s() const" % c["name"]})
        ds.append({"decl": "void poke%s(int idx, double v)" % c["name"]})
        decls.append({"decl": ("class %s : public %s" % (c["name"], c["base"])) if c["base"] else "class " + c["name"], "declarations": ds})
    py = cs["front"] == "python"
    doc = {"library": "MemLib", "language": "c++", "cxx_header": "memlib.hpp", "format": {"C_prefix": PREFIX},
           "options": dict({"wrap_python": py, "wrap_lua": False, "wrap_c": not py, "wrap_fortran": not py}, **(options or {})),
           "declarations": decls}
    return yaml.safe_dump(doc, sort_keys=False, width=1000)


def subject(cs):
    hdr = ["#ifndef MEMLIB_HPP", "#define MEMLIB_HPP"]
    impl = ['#include "memlib.hpp"', "#include <stdio.h>"]
    for c in cs["classes"]:
        n = c["name"]
        hdr.append("class %s%s {\npublic:" % (n, " : public " + c["base"] if c["base"] else ""))
        for m in c["members"]:
            hdr.append("    %s %s;" % (m["T"], m["cname"]))
        hdr += ["    %s();" % n, "    ~%s();" % n, "    void peek%s() const;" % n, "    void poke%s(int idx, double v);" % n,
                "    void whoami() const;", "};"]
        ms = all_members(cs, n)
        init = "".join("    %s = (%s)%r;\n" % (m["cname"], m["T"], init_value(cs, n, m)) for m in ms if m["owner"] == n)
        impl.append('%s::%s()\n{\n%s    printf("NEW %s\\n"); fflush(stdout);\n}' % (n, n, init, n))
        impl.append('%s::~%s()\n{\n    printf("DEL %s\\n"); fflush(stdout);\n}' % (n, n, n))
        show = "".join('    printf("M %s %s\\n", (%s)%s);\n' % (m["cname"], "%.17g" if is_float(m["T"]) else "%ld",
                                                              "double" if is_float(m["T"]) else "long", m["cname"]) for m in ms)
        impl.append('void %s::peek%s() const\n{\n    printf("E peek%s\\n");\n%s    fflush(stdout);\n}' % (n, n, n, show))
        impl.append('void %s::whoami() const\n{\n    printf("E whoami %s\\n"); fflush(stdout);\n}' % (n, n))
        sw = "".join("    if (idx == %d) %s = (%s)v;\n" % (k, m["cname"], m["T"]) for k, m in enumerate(ms))
        impl.append('void %s::poke%s(int idx, double v)\n{\n    printf("E poke%s %%d %%.17g\\n", idx, v);\n%s    fflush(stdout);\n}' % (n, n, n, sw))
    hdr.append("#endif")
    return "\n".join(hdr) + "\n", "\n\n".join(impl) + "\n"


def _ctext(T, v):
    if T == "float":
        v = _struct.unpack("<f", _struct.pack("<f", float(v)))[0]
    return "%.17g" % float(v) if is_float(T) else "%d" % int(v)


def model(cs):
    lines = []
    objs = {}
    for k, h in enumerate(cs["hist"]):
        lines.append("C %d" % k)
        key = (h["cls"], h["slot"])
        if h["op"] == "new":
            objs[key] = dict((m["cname"], init_value(cs, h["cls"], m)) for m in all_members(cs, h["cls"]))
            # C++ constructs the base sub-object first
            c = next(x for x in cs["classes"] if x["name"] == h["cls"])
            lines += (["NEW " + c["base"]] if c["base"] else []) + ["NEW " + h["cls"]]
        elif h["op"] == "del":
            c = next(x for x in cs["classes"] if x["name"] == h["cls"])
            if cs["front"] != "python":
                lines += ["DEL " + h["cls"]] + (["DEL " + c["base"]] if c["base"] else [])
            del objs[key]
        elif h["op"] == "set":
            objs[key][h["member"]] = h["value"]
        elif h["op"] == "setro":
            lines.append("RO AttributeError")
        elif h["op"] == "who":
            lines.append("E whoami " + h["cls"])
        elif h["op"] == "get":
            m = next(x for x in all_members(cs, h["cls"]) if x["cname"] == h["member"])
            lines.append("O " + _ctext(m["T"], objs[key][h["member"]]))
        elif h["op"] == "peek":
            lines.append("E peek" + h["which"])
            lines += ["M %s %s" % (m["cname"], _ctext(m["T"], objs[key][m["cname"]])) for m in all_members(cs, h["which"])]
        else:
            lines.append("E poke%s %d %s" % (h["which"], h["idx"], "%.17g" % float(h["value"])))
            m = all_members(cs, h["which"])[h["idx"]]
            objs[key][m["cname"]] = h["value"]
    return lines


# ---------------------------------------------------------------------------
# drivers

def f_lit(T, v):
    kind = KIND[T]
    if is_float(T):
        s = repr(abs(float(v)))
        return ("(-%s_%s)" if float(v) < 0 else "%s_%s") % (s, kind)
    return ("(-%d_%s)" % (-v, kind)) if v < 0 else "%d_%s" % (v, kind)


def f_driver(cs):
    decl = []
    for c in cs["classes"]:
        decl.append("  type(%s) :: %s0, %s1" % (c["name"].lower(), c["name"].lower()[0], c["name"].lower()[0]))
    body = []
    for k, h in enumerate(cs["hist"]):
        var = "%s%d" % (h["cls"].lower()[0], h["slot"])
        body.append("  call vf_site(%d_C_INT)" % k)
        if h["op"] == "new":
            body.append("  %s = %s()" % (var, h["cls"].lower()))
        elif h["op"] == "del":
            body.append("  call %s%%dtor()" % var)
        elif h["op"] == "set":
            m = next(x for x in all_members(cs, h["cls"]) if x["cname"] == h["member"])
            body.append("  call %s%%set_%s(%s)" % (var, m["name"], f_lit(m["T"], h["value"])))
        elif h["op"] == "get":
            m = next(x for x in all_members(cs, h["cls"]) if x["cname"] == h["member"])
            body.append(("  call vf_show_d(real(%s%%get_%s(), C_DOUBLE))" if is_float(m["T"]) else
                         "  call vf_show_i(int(%s%%get_%s(), C_LONG))") % (var, m["name"]))
        elif h["op"] == "peek":
            body.append("  call %s%%peek_%s()" % (var, h["which"].lower()))
        else:
            body.append("  call %s%%poke_%s(%d_C_INT, %s)" % (var, h["which"].lower(), h["idx"], f_lit("double", float(h["value"]))))
    src = ["subroutine vf_body", "  use iso_c_binding", "  use memlib_mod", "  implicit none", "  interface",
           "    subroutine vf_site(k) bind(C, name='vf_site')", "      import", "      integer(C_INT), value :: k", "    end subroutine",
           "    subroutine vf_show_d(v) bind(C, name='vf_show_d')", "      import", "      real(C_DOUBLE), value :: v", "    end subroutine",
           "    subroutine vf_show_i(v) bind(C, name='vf_show_i')", "      import", "      integer(C_LONG), value :: v", "    end subroutine",
           "  end interface"] + decl + body + ["end subroutine vf_body", "program vf_main", "  call vf_body", "end program vf_main"]
    return "\n".join(src) + "\n"


F_SUPPORT = r"""#include <stdio.h>
void vf_site(int k) { printf("C %d\n", k); fflush(stdout); }
void vf_show_d(double v) { printf("O %.17g\n", v); fflush(stdout); }
void vf_show_i(long v) { printf("O %ld\n", v); fflush(stdout); }
"""


def c_lit(T, v):
    if is_float(T):
        return repr(float(v)) + ("f" if T == "float" else "")
    if v == -2147483647:
        return "(-2147483647)"
    return "%d%s" % (v, "L" if T == "long" else "")


def c_driver(cs):
    out = ["#include <stdio.h>"] + ['#include "wrap%s.h"' % c["name"] for c in cs["classes"]] + ["int main(void)", "{"]
    for c in cs["classes"]:
        out.append("    %s%s %s0, %s1;" % (PREFIX, c["name"], c["name"].lower()[0], c["name"].lower()[0]))
    for k, h in enumerate(cs["hist"]):
        var = "%s%d" % (h["cls"].lower()[0], h["slot"])
        fn = PREFIX + h["cls"] + "_"
        out.append('    printf("C %d\\n"); fflush(stdout);' % k)
        if h["op"] == "new":
            out.append("    %sctor(&%s);" % (fn, var))
        elif h["op"] == "del":
            out.append("    %sdtor(&%s);" % (fn, var))
        elif h["op"] == "set":
            m = next(x for x in all_members(cs, h["cls"]) if x["cname"] == h["member"])
            out.append("    %sset_%s(&%s, %s);" % (fn, m["name"], var, c_lit(m["T"], h["value"])))
        elif h["op"] == "get":
            m = next(x for x in all_members(cs, h["cls"]) if x["cname"] == h["member"])
            out.append(('    printf("O %%.17g\\n", (double)%sget_%s(&%s));' if is_float(m["T"]) else
                        '    printf("O %%ld\\n", (long)%sget_%s(&%s));') % (fn, m["name"], var))
        elif h["op"] == "who":
            out.append("    %swhoami(&%s);" % (fn, var))
        elif h["op"] == "peek":
            out.append("    %speek_%s(&%s);" % (fn, h["which"].lower(), var))
        else:
            out.append("    %spoke_%s(&%s, %d, %r);" % (fn, h["which"].lower(), var, h["idx"], float(h["value"])))
        out.append("    fflush(stdout);")
    out += ["    return 0;", "}"]
    return "\n".join(out) + "\n"


def py_driver(cs):
    out = ["import sys", "import memlib"]
    for k, h in enumerate(cs["hist"]):
        var = "%s%d" % (h["cls"].lower()[0], h["slot"])
        out.append("print('C %d', flush=True)" % k)
        if h["op"] == "new":
            out.append("%s = memlib.%s()" % (var, h["cls"]))
        elif h["op"] == "del":
            out.append("%s = None" % var)
        elif h["op"] == "set":
            m = next(x for x in all_members(cs, h["cls"]) if x["cname"] == h["member"])
            out.append("%s.%s = %s" % (var, m["name"], repr(float(h["value"])) if is_float(m["T"]) else "%d" % h["value"]))
        elif h["op"] == "setro":
            m = next(x for x in all_members(cs, h["cls"]) if x["cname"] == h["member"])
            out += ["try:", "    %s.%s = 1" % (var, m["name"]), "    print('RO accepted', flush=True)",
                    "except AttributeError:", "    print('RO AttributeError', flush=True)"]
        elif h["op"] == "get":
            m = next(x for x in all_members(cs, h["cls"]) if x["cname"] == h["member"])
            out.append("print('O ' + (%s), flush=True)" % (("'%%.17g' %% %s.%s" if is_float(m["T"]) else "'%%d' %% %s.%s") % (var, m["name"])))
        elif h["op"] == "who":
            out.append("%s.whoami()" % var)
        elif h["op"] == "peek":
            out.append("%s.peek%s()" % (var, h["which"]))
        else:
            out.append("%s.poke%s(%d, %r)" % (var, h["which"], h["idx"], float(h["value"])))
    return "\n".join(out) + "\n"


def build_and_run(work, cs, gen_files):
    import subprocess
    import sysconfig
    front = cs["front"]
    hdr, impl = subject(cs)
    open(os.path.join(work, "memlib.hpp"), "w").write(hdr)
    open(os.path.join(work, "memlib.cpp"), "w").write(impl)
    inc = sysconfig.get_paths()["include"]
    objs = []
    extra = ["-fPIC", "-I", inc] if front == "python" else []

    def cc(cmd, src):
        obj = os.path.splitext(os.path.basename(src))[0] + ".o"
        rc, so, se = drivers.run_cmd(cmd + drivers.SAN + ["-g", "-I", "."] + extra + ["-c", src, "-o", obj], work)
        if rc != 0:
            return "%s does not compile: %s" % (src, (se or so)[-1500:])
        objs.append(obj)
        return None
    err = cc(["g++", "-std=c++11"], "memlib.cpp")
    if err:
        return dict(stage="harness", detail=err, stream=[])
    for fn in sorted(gen_files):
        if fn.endswith((".cpp", ".c")) and fn != "memlib.cpp":
            err = cc((["g++", "-std=c++11"] if fn.endswith(".cpp") else ["gcc", "-std=c99"]) + (["-w"] if front == "python" else []), fn)
            if err:
                return dict(stage="wrapper-build", detail=err, stream=[])
    if front == "python":
        rc, so, se = drivers.run_cmd(["g++", "-shared"] + drivers.SAN + objs + ["-o", "memlib.so", "-L" + sysconfig.get_config_var("LIBDIR"), "-lpython3.12"], work)
        if rc != 0:
            return dict(stage="link", detail=(se or so)[-1200:], stream=[])
        from . import pyfront
        open(os.path.join(work, "drv.py"), "w").write(py_driver(cs))
        rc, asanlib, _e = drivers.run_cmd(["gcc", "-print-file-name=libasan.so"], work)
        env = dict(os.environ, PYTHONPATH=work, LD_LIBRARY_PATH=sysconfig.get_config_var("LIBDIR"), PYTHONHASHSEED="0",
                   LD_PRELOAD=asanlib.strip(), ASAN_OPTIONS="detect_leaks=0:halt_on_error=1:exitcode=97")
        try:
            cp = subprocess.run([pyfront.PY, "drv.py"], cwd=work, capture_output=True, text=True, timeout=120, env=env, errors="replace")
        except subprocess.TimeoutExpired:
            return dict(stage="run", detail="python driver timed out", rc=1, stream=[])
        return dict(stage="run", detail="" if cp.returncode == 0 else "python exits with status %s: %s" % (cp.returncode, cp.stderr[-1200:]),
                    rc=cp.returncode, stream=[l for l in cp.stdout.split("\n") if l.strip()])
    if front == "fortran":
        for fn in sorted(gen_files):
            if fn.endswith(".f"):
                err = cc(["gfortran", "-cpp", "-ffree-form"], fn)
                if err:
                    return dict(stage="wrapper-build", detail=err, stream=[])
        open(os.path.join(work, "vf_fsupport.c"), "w").write(F_SUPPORT)
        open(os.path.join(work, "drv.f90"), "w").write(f_driver(cs))
        err = cc(["gcc", "-std=c99"], "vf_fsupport.c")
        if err:
            return dict(stage="harness", detail=err, stream=[])
        err = cc(["gfortran", "-ffree-form", "-ffree-line-length-none"], "drv.f90")
        if err:
            return dict(stage="driver-build", detail=err, stream=[])
        link = ["gfortran"]
    else:
        open(os.path.join(work, "drv.c"), "w").write(c_driver(cs))
        err = cc(["gcc", "-std=c99"], "drv.c")
        if err:
            return dict(stage="driver-build", detail=err, stream=[])
        link = ["g++"]
    rc, so, se = drivers.run_cmd(link + drivers.SAN + objs + ["-o", "drv", "-lstdc++"], work)
    if rc != 0:
        return dict(stage="link", detail=(se or so)[-1200:], stream=[])
    env = dict(os.environ, ASAN_OPTIONS="detect_leaks=1:halt_on_error=1:exitcode=97")
    rc, so, se = drivers.run_cmd([os.path.join(work, "drv")], work, timeout=60, env=env)
    return dict(stage="run", detail="" if rc == 0 else "exit %d: %s" % (rc, se[-800:]), rc=rc,
                stream=[l for l in so.split("\n") if l.strip()])


def _job(job):
    idx, cs, options = job
    front = cs["front"]
    derived = len(cs["classes"]) > 1
    labels = ["member:%s:%s%s" % (front, h["op"], ":inherited" if h.get("which", h["cls"]) != h["cls"] or
                                  (h.get("member") and next(x for x in all_members(cs, h["cls"]) if x["cname"] == h["member"])["owner"] != h["cls"]) else "")
              for h in cs["hist"]]
    nts = []
    for h, lb in zip(cs["hist"], labels):
        m = next((x for x in all_members(cs, h["cls"]) if x["cname"] == h.get("member")), None)
        nts.append((lb, h["cls"], (m["T"], m["readonly"], m["renamed"]) if m else None, derived))
    out = dict(idx=idx, problems=[], labels=labels, nontrivial=nts,
               sample=dict(front=front, classes=cs["classes"], first_ops=cs["hist"][:4]))
    work = tempfile.mkdtemp(prefix="vfmb_", dir=core.scratch_root())
    case_ = dict(member_case=cs, options=options)
    try:
        r = shroud_run.run_yaml(yaml_text(cs, options), [], workdir=work, name="memlib")
        if r.status != "ok":
            out["problems"].append(("member:shroud", case_, "Shroud stops on a class with member variables: " + r.describe()))
            return out
        outd = os.path.join(work, "out")
        res = build_and_run(outd, cs, sorted(os.listdir(outd)))
        if res["stage"] == "harness":
            raise core.HarnessError(res["detail"])
        if res["stage"] != "run":
            out["problems"].append(("member:%s:%s" % (front, res["stage"]), case_, "%s: %s" % (res["stage"], res["detail"][-1200:])))
            return out
        want, got = model(cs), res["stream"]
        if got != want:
            i = next((k for k, (a, b) in enumerate(zip(got, want)) if a != b), min(len(got), len(want)))
            site = max([int(l.split()[1]) for l in want[:i + 1] if l.startswith("C ")] or [0])
            h = cs["hist"][site] if site < len(cs["hist"]) else {"op": "?"}
            out["problems"].append(("member:%s:%s" % (front, h["op"]), case_,
                                    "step %d (%s): expected line %r, got %r (%s)" % (site, h, want[i:i + 1], got[i:i + 1], res["detail"])))
        elif res.get("rc"):
            out["problems"].append(("member:%s:exit" % front, case_, res["detail"]))
    finally:
        shutil.rmtree(work, ignore_errors=True)
    return out


def run_members(ctx, front, n, configs=(None,)):
    jobs = []
    for derived in (False, True):
        for cs in smallgen.sample(case(front, derived), ctx.seed + 1700 + len(jobs), n):
            for options in configs:
                jobs.append((len(jobs), cs, options))
    seen = set()
    for out in core.pool_map(_job, jobs):
        for lb, nt in zip(out["labels"], out["nontrivial"]):
            ctx.case(n=1, label=lb, nontrivial=nt)
        ctx.case(n=0, sample=out["sample"])
        for key, case_, note in out["problems"]:
            if key in seen:
                continue
            seen.add(key)
            ctx.failure(key, case_, expected="stream predicted by the object model", observed=note, note=note)


def replay_case(ctx, rec):
    c = rec["case"]
    out = _job((0, c["member_case"], c.get("options")))
    for key, case_, note in out["problems"]:
        ctx.failure(key, case_, observed=note, note=note)
