"""C10 G2 - end-to-end character rules, exhaustive small scope.

A fixed library of string functions (every row: char*, char**, std::string by
value / reference / pointer, every intent, every result style) is wrapped for
language c and c++, F_CFI off and on.  A Fortran driver loops AT RUN TIME over
the declared length L of the Fortran variable, the C-side length n and all
contents over {a, blank, b}; the subject library logs what it receives and
produces the string the driver announced through a side channel.  Python
enumerates the same loops and predicts every line from the documented rule.
"""
import itertools
import os
import shutil
import tempfile

from .. import core, shroud_run
from . import drivers, xlib

ALPHA = "a b"

# (name, decl per language or None)
ROWS = [
    ("s1in", "void s1in(const char *s)", "c"),
    ("s1out", "void s1out(char *s +intent(out)+charlen(12))", "c"),
    ("s1inout", "void s1inout(char *s +intent(inout))", "c"),
    ("r1", "const char *r1()", "c"),
    ("r1len", "const char *r1len() +len(5)", "c"),
    ("take_names", "int take_names(char **names +intent(in), int n +implied(size(names)))", "c"),
    ("s3in", "void s3in(const std::string &s)", "c++"),
    ("s3val", "void s3val(std::string s)", "c++"),
    ("s3ptr", "void s3ptr(const std::string *s)", "c++"),
    ("s3out", "void s3out(std::string &s +intent(out))", "c++"),
    ("s3ptrout", "void s3ptrout(std::string *s +intent(out))", "c++"),
    ("s3inout", "void s3inout(std::string &s +intent(inout))", "c++"),
    ("r3v", "const std::string r3v()", "c++"),
    ("r3ref", "const std::string &r3ref()", "c++"),
    ("r3len", "const std::string &r3len() +len(5)", "c++"),
    # strings.yaml getConstStringPtrLen / cstatements.rst "final": a caller-owned result whose text is copied into the
    # Fortran result (post_call) and which the user's final clause releases afterwards
    ("r3own", "const std::string *r3own() +len(5)", "c++"),
    # the same output arguments after a 'const char *' argument (strings.yaml explicit2 / callback3 style signatures: the
    # conversion of one character argument does not depend on the ones before it)
    ("k1s1out", "void k1s1out(const char *key, char *s +intent(out)+charlen(12))", "c"),
    ("k1s3out", "void k1s3out(const char *key, std::string &s +intent(out))", "c++"),
]
EXTRA_YAML = {"r3own": {"fstatements": {"c_buf": {"final": ["delete {cxx_var};"]}}}}


def rows_for(lang, only=None, skip=()):
    return [r for r in ROWS if (r[2] == "c" or lang == "c++") and (only is None or r[0] in only) and r[0] not in skip]


SELECT = dict(only=None, skip=())


def yaml_text(lang, options):
    import yaml
    doc = {"library": "StrLib", "language": lang, "cxx_header": "strlib.h",
           "options": dict({"wrap_python": False, "wrap_lua": False}, **(options or {})),
           "declarations": [dict({"decl": d}, **EXTRA_YAML.get(_n, {})) for _n, d, _l in rows_for(lang, **SELECT)]}
    return yaml.safe_dump(doc, sort_keys=False, width=1000)


def subject(lang):
    cxx = lang == "c++"
    h = ["#ifndef STRLIB_H", "#define STRLIB_H"]
    if cxx:
        h.append("#include <string>")
    body = ['#include "strlib.h"', '#include "vf_support.h"', "#include <string.h>", "#include <stdio.h>",
            "static char vf_next[64]; static int vf_next_null = 0;",
            ('extern "C" ' if cxx else "") + "void vf_set_next(int n, int code) { int i; vf_next_null = (n < 0); if (n < 0) n = 0;"
            " for (i = 0; i < n; i++) { vf_next[i] = \"a b\"[code % 3]; code /= 3; } vf_next[n] = 0; }",
            ('extern "C" ' if cxx else "") + "void vf_tag(int row, int L, int n, int code) { printf(\"G %d %d %d %d\\n\", row, L, n, code); fflush(stdout); }",
            ('extern "C" ' if cxx else "") + "void vf_live_report(void) { }"]
    if cxx:
        h.append('extern "C" void vf_set_next(int n, int code);')
    else:
        h.append("void vf_set_next(int n, int code);")
    for name, decl, l in rows_for(lang, **SELECT):
        proto = decl.split(" +")[0].rstrip()
        import re
        proto = re.sub(r"\s*\+\w+(\((?:[^()]|\([^()]*\))*\))?", "", decl)
        h.append(proto + ";")
        if name in ("s1in",):
            body.append("%s { vf_as(0, s, -1); }" % proto)
        elif name == "s1out":
            body.append("%s { strcpy(s, vf_next); }" % proto)
        elif name == "k1s1out":
            body.append("%s { (void) key; strcpy(s, vf_next); }" % proto)
        elif name == "k1s3out":
            body.append("%s { (void) key; s = std::string(vf_next); }" % proto)
        elif name == "s1inout":
            body.append("%s { vf_as(0, s, -1); strcpy(s, vf_next); }" % proto)
        elif name in ("r1", "r1len"):
            body.append("%s { return vf_next_null ? NULL : vf_next; }" % proto)
        elif name == "take_names":
            body.append("%s { int i; vf_ai(1, n); for (i = 0; i < n; i++) vf_as(0, names[i], -1); return n; }" % proto)
        elif name in ("s3in", "s3val"):
            body.append("%s { vf_as(0, s.data(), (int) s.size()); }" % proto)
        elif name == "s3ptr":
            body.append("%s { vf_as(0, s->data(), (int) s->size()); }" % proto)
        elif name == "s3out":
            body.append("%s { s = std::string(vf_next); }" % proto)
        elif name == "s3ptrout":
            body.append("%s { *s = std::string(vf_next); }" % proto)
        elif name == "s3inout":
            body.append("%s { vf_as(0, s.data(), (int) s.size()); s = std::string(vf_next); }" % proto)
        elif name == "r3v":
            body.append("%s { return std::string(vf_next); }" % proto)
        elif name in ("r3ref", "r3len"):
            body.append("%s { static std::string keep; keep = vf_next; return keep; }" % proto)
        elif name == "r3own":
            body.append("%s { return new std::string(vf_next); }" % proto)
    h.append("#endif")
    return {"strlib.h": "\n".join(h) + "\n", "xlib." + ("cpp" if cxx else "c"): "\n".join(body) + "\n",
            "vf_support.h": xlib.SUPPORT_H, "vf_support.c": xlib.SUPPORT_C}


def f_driver(lang, bound):
    rows = rows_for(lang, **SELECT)
    src = ["module vf_strmod", "  use iso_c_binding", "  implicit none", "  interface",
           "    subroutine vf_set_next(n, code) bind(C, name=\"vf_set_next\")", "      import", "      integer(C_INT), value :: n, code", "    end subroutine",
           "    subroutine vf_tag(row, L, n, code) bind(C, name=\"vf_tag\")", "      import", "      integer(C_INT), value :: row, L, n, code", "    end subroutine",
           "  end interface", "contains",
           "  subroutine fill(s, n, code)", "    character(len=*), intent(out) :: s", "    integer, intent(in) :: n, code", "    integer :: i, c",
           "    s(:) = repeat(' ', len(s))", "    c = code", "    do i = 1, n", "      s(i:i) = 'a b'(mod(c, 3) + 1:mod(c, 3) + 1)", "      c = c / 3", "    end do",
           "  end subroutine fill", "end module vf_strmod",
           "subroutine vf_run()", "  use iso_c_binding", "  use vf_mod", "  use vf_strmod", "  use strlib_mod", "  implicit none",
           "  integer :: L, n, code, nin", "  integer, parameter :: B = %d" % bound]
    body = []
    for rid, (name, decl, l) in enumerate(ROWS):
        if (name, decl, l) not in rows:
            continue
        if name in ("s1in", "s3in", "s3val", "s3ptr"):
            body += ["  do L = 0, B", "    block", "      character(len=L) :: s", "      do n = 0, L", "        do code = 0, 3**n - 1",
                     "          call fill(s, n, code)", "          call vf_tag(%d, L, n, code)" % rid, "          call %s(s)" % name,
                     "        end do", "      end do", "    end block", "  end do"]
        elif name in ("s3out", "s3ptrout", "k1s3out"):
            body += ["  do L = 0, B", "    block", "      character(len=L) :: s", "      do n = 0, B", "        do code = 0, 3**n - 1",
                     "          s(:) = repeat('#', L)", "          call vf_set_next(n, code)", "          call vf_tag(%d, L, n, code)" % rid,
                     "          call %s(%ss)" % (name, "'key ', " if name.startswith("k1") else ""), "          call vf_os(0, s, len(s, kind=C_INT))", "        end do", "      end do", "    end block", "  end do"]
        elif name in ("s1out", "k1s1out"):
            # the library writes a C string of n characters + NUL into the caller's buffer: L > n
            body += ["  do L = 1, B + 1", "    block", "      character(len=L) :: s", "      do n = 0, L - 1", "        do code = 0, 3**n - 1",
                     "          s(:) = repeat('#', L)", "          call vf_set_next(n, code)", "          call vf_tag(%d, L, n, code)" % rid,
                     "          call %s(%ss)" % (name, "'key ', " if name.startswith("k1") else ""), "          call vf_os(0, s, len(s, kind=C_INT))", "        end do", "      end do", "    end block", "  end do"]
        elif name in ("s1inout", "s3inout"):
            lo = "1" if name == "s1inout" else "0"
            body += ["  do L = %s, B" % lo, "    block", "      character(len=L) :: s", "      do n = 0, %s" % ("L - 1" if name == "s1inout" else "B"),
                     "        do code = 0, 3**n - 1", "          nin = mod(code, L + 1)", "          call fill(s, nin, code)",
                     "          call vf_set_next(n, code)", "          call vf_tag(%d, L, n, code)" % rid, "          call %s(s)" % name,
                     "          call vf_os(0, s, len(s, kind=C_INT))", "        end do", "      end do", "    end block", "  end do"]
        elif name == "take_names":
            # n = number of strings (0..2), L = declared length of each element, all contents of n*L characters
            body += ["  do n = 0, 2", "    do L = 0, min(B, 3)", "      block", "        character(len=L) :: arr(n)", "        character(len=max(n*L,1)) :: flat",
                     "        integer :: i, rc", "        do code = 0, 3**(n*L) - 1", "          call fill(flat, n*L, code)",
                     "          do i = 1, n", "            arr(i) = flat((i-1)*L+1:i*L)", "          end do",
                     "          call vf_tag(%d, L, n, code)" % rid, "          rc = take_names(arr)", "        end do", "      end block", "    end do", "  end do"]
        elif name in ("r1", "r3v", "r3ref"):
            body += ["  do n = %d, B" % (-1 if name == "r1" else 0), "    do code = 0, 3**max(n, 0) - 1", "      block", "        character(len=:), allocatable :: rv",
                     "        call vf_set_next(n, code)", "        call vf_tag(%d, 0, n, code)" % rid, "        rv = %s()" % name,
                     "        call vf_os(-1, rv, len(rv, kind=C_INT))", "      end block", "    end do", "  end do"]
        elif name in ("r1len", "r3len", "r3own"):
            body += ["  do n = %d, B" % (-1 if name == "r1len" else 0), "    do code = 0, 3**max(n, 0) - 1", "      block", "        character(len=5) :: rv",
                     "        call vf_set_next(n, code)", "        call vf_tag(%d, 5, n, code)" % rid, "        rv = %s()" % name,
                     "        call vf_os(-1, rv, len(rv, kind=C_INT))", "      end block", "    end do", "  end do"]
    src += body
    src += ["end subroutine vf_run", "program vf_main", "  call vf_run()", "end program vf_main"]
    return "\n".join(src) + "\n"


def content(n, code):
    s = []
    for _ in range(n):
        s.append(ALPHA[code % 3])
        code //= 3
    return "".join(s)


def expected(lang, bound):
    """The same loops in Python, with the documented rule."""
    rows = rows_for(lang, **SELECT)
    out = []
    B = bound
    for rid, row in enumerate(ROWS):
        if row not in rows:
            continue
        name = row[0]
        if name in ("s1in", "s3in", "s3val", "s3ptr"):
            for L in range(0, B + 1):
                for n in range(0, L + 1):
                    for code in range(3 ** n):
                        s = content(n, code).ljust(L)
                        out.append("G %d %d %d %d" % (rid, L, n, code))
                        # trailing blanks trimmed, NUL terminated (char*) / trimmed length (std::string)
                        out.append("A 0 s " + xlib.esc(s.rstrip(" ")))
        elif name in ("s3out", "s3ptrout", "k1s3out"):
            for L in range(0, B + 1):
                for n in range(0, B + 1):
                    for code in range(3 ** n):
                        out.append("G %d %d %d %d" % (rid, L, n, code))
                        out.append("O 0 s " + xlib.esc(content(n, code)[:L].ljust(L)))
        elif name in ("s1out", "k1s1out"):
            for L in range(1, B + 2):
                for n in range(0, L):
                    for code in range(3 ** n):
                        out.append("G %d %d %d %d" % (rid, L, n, code))
                        out.append("O 0 s " + xlib.esc(content(n, code)[:L].ljust(L)))
        elif name in ("s1inout", "s3inout"):
            for L in range(1 if name == "s1inout" else 0, B + 1):
                for n in range(0, (L if name == "s1inout" else B + 1)):
                    for code in range(3 ** n):
                        nin = code % (L + 1)
                        sin = content(nin, code).ljust(L)
                        out.append("G %d %d %d %d" % (rid, L, n, code))
                        out.append("A 0 s " + xlib.esc(sin.rstrip(" ")))
                        out.append("O 0 s " + xlib.esc(content(n, code)[:L].ljust(L)))
        elif name == "take_names":
            for n in range(0, 3):
                for L in range(0, min(B, 3) + 1):
                    for code in range(3 ** (n * L)):
                        flat = content(n * L, code)
                        out.append("G %d %d %d %d" % (rid, L, n, code))
                        out.append("A 1 i %d" % n)
                        for i in range(n):
                            # each element reaches C without its trailing blanks, NUL terminated
                            out.append("A 0 s " + xlib.esc(flat[i * L:(i + 1) * L].rstrip(" ")))
        elif name in ("r1", "r3v", "r3ref"):
            for n in range(-1 if name == "r1" else 0, B + 1):
                for code in range(3 ** max(n, 0)):
                    out.append("G %d 0 %d %d" % (rid, n, code))
                    # allocatable result: exactly the C string's length; NULL -> zero length
                    out.append("O rv s " + xlib.esc(content(max(n, 0), code)))
        elif name in ("r1len", "r3len", "r3own"):
            for n in range(-1 if name == "r1len" else 0, B + 1):
                for code in range(3 ** max(n, 0)):
                    out.append("G %d 5 %d %d" % (rid, n, code))
                    out.append("O rv s " + xlib.esc(content(max(n, 0), code)[:5].ljust(5)))
    return out


def _job(job):
    lang, options, bound, asan = job[:4]
    SELECT["only"], SELECT["skip"] = (job[4], job[5]) if len(job) > 4 else (None, ())
    out = dict(lang=lang, options=options, n=0, nontrivial=0, problems=[], sample=None)
    work = tempfile.mkdtemp(prefix="vf10e_", dir=core.scratch_root())
    try:
        r = shroud_run.run_yaml(yaml_text(lang, options), [], workdir=work, name="strlib")
        if r.status != "ok":
            out["problems"].append(("shroud", "Shroud stops on the string library: " + r.describe()))
            return out
        outd = os.path.join(work, "out")
        res = drivers.build_custom(outd, subject(lang), lang == "c++", os.listdir(outd), "fortran", f_driver(lang, bound), asan=asan)
        if res["stage"] == "harness":
            raise core.HarnessError(res["detail"])
        if res["stage"] not in ("ok", "run"):
            out["problems"].append((res["stage"], "string library wrappers: %s: %s" % (res["stage"], res["detail"][-900:])))
            return out
        exp = expected(lang, bound)
        got = res["stream"]
        # group by G tag
        def groups(lines):
            g, cur = [], None
            for ln in lines:
                if ln.startswith("G "):
                    cur = [ln]
                    g.append(cur)
                elif cur is not None:
                    cur.append(ln)
            return g
        ge, gg = groups(exp), groups(got)
        out["n"] = len(ge)
        seen = set()
        for i, e in enumerate(ge):
            rid, L, n, code = [int(x) for x in e[0].split()[1:]]
            if n != L or " " in content(max(n, 0), code):
                out["nontrivial"] += 1
            g = gg[i] if i < len(gg) else None
            if g != e:
                key = "e2e:%s" % ROWS[rid][0]
                if key not in seen:
                    seen.add(key)
                    out["problems"].append((key, "%s (language %s, %s) declared length %d, C length %d, content %r: documented rule gives %s, observed %s"
                                            % (ROWS[rid][1], lang, options, L, n, content(max(n, 0), code), e[1:], g[1:] if g else "(run stopped)")))
                if g is None:
                    break
        if res["stage"] == "run":
            out["problems"].append(("e2e:memory", "string driver stops abnormally (sanitizer?): " + res["detail"][-1200:]))
        if ge:
            out["sample"] = dict(language=lang, options=options, case=ge[len(ge) // 2])
    finally:
        shutil.rmtree(work, ignore_errors=True)
    return out


def run_c10(ctx):
    quick = ctx.tier == "quick"
    bound = 3 if quick else 5
    # char** together with F_CFI is a recorded known finding: excluded here, probed below
    # (the user's final clause can only be given for the buffer variant - fstatements key c_buf - so the caller-owned
    #  result row is not part of the F_CFI runs)
    jobs = [(lang, opts, bound, True, None, ("take_names", "r3own") if opts else ()) for lang in ("c", "c++") for opts in (None, {"F_CFI": True})]
    ctx.exclude_known("probe:charpp-cfi", 2)
    total_nt = 0
    for out in core.pool_map(_job, jobs):
        ctx.evaluations += out["n"]
        ctx.labels["G2:%s:%s" % (out["lang"], "cfi" if out["options"] else "default")] += out["n"]
        total_nt += out["nontrivial"]
        if out["sample"]:
            ctx.case(n=0, sample=out["sample"])
        for key, note in out["problems"]:
            ctx.failure(key + (":cfi" if out["options"] else ""), dict(part="G2", lang=out["lang"], options=out["options"], bound=bound),
                        expected="documented character rules", observed=note, note=note)
    probe = _job(("c", {"F_CFI": True}, 1, False, ("take_names",), ()))
    if probe["problems"]:
        ctx.failure("probe:charpp-cfi", dict(part="G2", probe="charpp-cfi", lang="c", options={"F_CFI": True}, bound=1),
                    observed=probe["problems"][0][1], note=probe["problems"][0][1])
    ctx.extra["nontrivial_calls"] = ctx.extra.get("nontrivial_calls", 0) + total_nt
    ctx.nontrivial = set(range(ctx.extra["nontrivial_calls"]))
    ctx.rule += (" G2: fixed library of %d string functions x {c, c++} x {F_CFI} driven from Fortran under ASan with ALL declared "
                 "lengths 0..%d x C lengths 0..%d x contents over {a, blank, b} (NULL for char* results)" % (len(ROWS), bound, bound))


def replay_c10(ctx, rec):
    c = rec["case"]
    if c.get("probe"):
        out = _job((c["lang"], c["options"], c["bound"], False, ("take_names",), ()))
        if out["problems"]:
            ctx.failure("probe:charpp-cfi", c, observed=out["problems"][0][1], note=out["problems"][0][1])
        return
    out = _job((c["lang"], c["options"], c["bound"], True, None, ("take_names", "r3own") if c["options"] else ()))
    for key, note in out["problems"]:
        ctx.failure(key + (":cfi" if out["options"] else ""), c, observed=note, note=note)
