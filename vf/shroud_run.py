"""Run Shroud from /repo's working tree.

Modes
  fork  : forked child of this (pristine) process runs shroud.main.main() with
          sys.argv set -> the real argparse front end, no interpreter start-up.
  cli   : real subprocess `python -m shroud.main ...` (env / hash seed under test).
The parent process never calls into shroud itself.
"""
from __future__ import annotations

import io
import linecache
import os
import pickle
import shutil
import subprocess
import sys
import tempfile
import traceback

from . import core

PY = "/venv/bin/python"


class Result(object):
    __slots__ = ("status", "exc_type", "exc_msg", "exc_origin", "exc_tb", "stdout",
                 "stderr", "files", "exit_code", "extra")

    def __init__(self):
        self.status = "ok"        # ok | error | timeout
        self.exc_type = None
        self.exc_msg = None
        self.exc_origin = None    # dict(file, func, line, text, is_raise, in_shroud)
        self.exc_tb = None
        self.stdout = ""
        self.stderr = ""
        self.files = {}           # relpath (to the work dir) -> bytes
        self.exit_code = None
        self.extra = None

    def describe(self):
        if self.status == "ok":
            return "ok"
        return "%s: %s: %s @%s" % (self.status, self.exc_type, (self.exc_msg or "")[:300],
                                   self.exc_origin)


def exception_info(exc):
    """(type name, message, origin dict, short traceback)"""
    tb = traceback.extract_tb(exc.__traceback__)
    origin = None
    if tb:
        fr = tb[-1]
        text = (fr.line or linecache.getline(fr.filename, fr.lineno) or "").strip()
        origin = dict(file=os.path.basename(fr.filename), func=fr.name, line=fr.lineno,
                      text=text, is_raise=text.startswith("raise"),
                      in_shroud=(os.sep + "shroud" + os.sep) in fr.filename)
        # innermost frame inside shroud (for bucketing when a library raised)
        for fr2 in reversed(tb):
            if (os.sep + "shroud" + os.sep) in fr2.filename:
                origin["shroud_frame"] = "%s:%s" % (os.path.basename(fr2.filename), fr2.name)
                break
    short = "".join(traceback.format_list(tb[-6:]))
    mro = [c.__name__ for c in type(exc).__mro__]
    if isinstance(exc, SystemExit):
        msg = "" if exc.code is None else str(exc.code)
    else:
        msg = str(exc)
    return type(exc).__name__, msg, origin, short, mro


def _child_body(wfd, fn, args, cwd, out_path, err_path):
    """Body of the forked child."""
    try:
        fo = open(out_path, "w")
        fe = open(err_path, "w")
        os.dup2(fo.fileno(), 1)
        os.dup2(fe.fileno(), 2)
        sys.stdout = fo
        sys.stderr = fe
        if cwd:
            os.chdir(cwd)
        res = {"status": "ok"}
        try:
            res["extra"] = fn(*args)
        except SystemExit as e:
            if e.code in (None, 0):
                res["exit_code"] = 0
            else:
                t, m, o, s, mro = exception_info(e)
                res.update(status="error", exc_type=t, exc_msg=m, exc_origin=o, exc_tb=s,
                           exit_code=e.code if isinstance(e.code, int) else 1, mro=mro)
        except BaseException as e:  # noqa - we classify, never swallow
            t, m, o, s, mro = exception_info(e)
            res.update(status="error", exc_type=t, exc_msg=m, exc_origin=o, exc_tb=s, mro=mro)
        try:
            sys.stdout.flush()
            sys.stderr.flush()
        except Exception:
            pass
        try:
            data = pickle.dumps(res)
        except Exception as e:
            data = pickle.dumps({"status": "error", "exc_type": "HarnessPickle",
                                 "exc_msg": repr(e)})
        with os.fdopen(wfd, "wb") as w:
            w.write(data)
    finally:
        os._exit(0)


def in_child(fn, args=(), cwd=None, timeout=120):
    """Run fn(*args) in a forked child (os.fork, so it also works inside pool
    workers); returns dict(status, extra | exc_*, stdout, stderr)."""
    import select
    import signal
    import time
    tmpd = tempfile.mkdtemp(prefix="vfio_", dir=core.scratch_root())
    outp = os.path.join(tmpd, "out")
    errp = os.path.join(tmpd, "err")
    sys.stdout.flush()
    sys.stderr.flush()
    rfd, wfd = os.pipe()
    pid = os.fork()
    if pid == 0:
        os.close(rfd)
        _child_body(wfd, fn, args, cwd, outp, errp)
        os._exit(0)
    os.close(wfd)
    chunks = []
    deadline = time.monotonic() + timeout
    timed_out = False
    try:
        while True:
            left = deadline - time.monotonic()
            if left <= 0:
                timed_out = True
                break
            r, _, _ = select.select([rfd], [], [], left)
            if not r:
                timed_out = True
                break
            b = os.read(rfd, 1 << 20)
            if not b:
                break
            chunks.append(b)
        if timed_out:
            try:
                os.kill(pid, signal.SIGKILL)
            except OSError:
                pass
        _, status = os.waitpid(pid, 0)
        if timed_out:
            res = {"status": "timeout", "exc_type": "Timeout",
                   "exc_msg": "no answer in %ss" % timeout}
        else:
            try:
                res = pickle.loads(b"".join(chunks))
            except Exception:
                res = {"status": "error", "exc_type": "ChildDied",
                       "exc_msg": "wait status %s" % status}
        try:
            res["stdout"] = open(outp, errors="replace").read()
            res["stderr"] = open(errp, errors="replace").read()
        except OSError:
            res["stdout"] = res["stderr"] = ""
    finally:
        os.close(rfd)
        shutil.rmtree(tmpd, ignore_errors=True)
    return res


def _shroud_main(argv):
    import shroud.main
    sys.argv = ["shroud"] + list(argv)
    shroud.main.main()


def read_tree(root, skip=()):
    files = {}
    for dp, dn, fn in os.walk(root):
        dn.sort()
        for f in sorted(fn):
            full = os.path.join(dp, f)
            rel = os.path.relpath(full, root)
            if rel in skip:
                continue
            with open(full, "rb") as fp:
                files[rel] = fp.read()
    return files


def _to_result(res):
    r = Result()
    r.status = res["status"]
    r.exc_type = res.get("exc_type")
    r.exc_msg = res.get("exc_msg")
    r.exc_origin = res.get("exc_origin")
    r.exc_tb = res.get("exc_tb")
    r.stdout = res.get("stdout", "")
    r.stderr = res.get("stderr", "")
    r.exit_code = res.get("exit_code")
    r.extra = res.get("extra")
    if res.get("mro"):
        r.extra = {"mro": res["mro"]}
    return r


def run_argv(argv, cwd, mode="fork", env=None, timeout=120):
    """Run shroud with an argument vector in directory cwd.  Files are NOT read."""
    if mode == "fork":
        return _to_result(in_child(_shroud_main, (argv,), cwd=cwd, timeout=timeout))
    elif mode == "cli":
        e = dict(os.environ)
        e["PYTHONPATH"] = core.REPO
        e["PYTHONDONTWRITEBYTECODE"] = "1"
        if env:
            e.update(env)
        r = Result()
        try:
            cp = subprocess.run([PY, "-m", "shroud.main"] + list(argv), cwd=cwd, env=e,
                                capture_output=True, timeout=timeout)
        except subprocess.TimeoutExpired:
            r.status = "timeout"
            return r
        r.stdout = cp.stdout.decode("utf-8", "replace")
        r.stderr = cp.stderr.decode("utf-8", "replace")
        r.exit_code = cp.returncode
        if cp.returncode != 0:
            r.status = "error"
            lines = [l for l in r.stderr.strip().split("\n") if l.strip()]
            last = lines[-1] if lines else ""
            if "Traceback (most recent call last)" in r.stderr and ":" in last:
                r.exc_type, r.exc_msg = last.split(":", 1)
            elif "Traceback (most recent call last)" in r.stderr:
                r.exc_type, r.exc_msg = last, ""
            else:
                r.exc_type, r.exc_msg = "SystemExit", last
            r.exc_tb = r.stderr[-1500:]
        return r
    raise ValueError(mode)


def run_yaml(yaml_text, argv=(), workdir=None, name="lib", mode="fork", extra_files=None,
             outdir="out", env=None, keep=False, timeout=120, prepopulate=None):
    """Write yaml_text to <work>/in/<name>.yaml, run
       shroud <argv> --outdir <work>/<outdir> --logdir <work>/<outdir> in/<name>.yaml
    and return Result with .files = every file under <work>/<outdir>.
    extra_files: {relpath under <work>/in: text} (splicer files, ...).
    If argv already contains --outdir/--logdir they are not added.
    """
    own = workdir is None
    if own:
        workdir = tempfile.mkdtemp(prefix="vfs_", dir=core.scratch_root())
    try:
        ind = os.path.join(workdir, "in")
        outd = os.path.join(workdir, outdir)
        os.makedirs(ind, exist_ok=True)
        os.makedirs(outd, exist_ok=True)
        if prepopulate:
            for rel, data in prepopulate.items():
                full = os.path.join(outd, rel)
                os.makedirs(os.path.dirname(full), exist_ok=True)
                with open(full, "wb") as fp:
                    fp.write(data)
        ypath = os.path.join(ind, name + ".yaml")
        with open(ypath, "w") as fp:
            fp.write(yaml_text)
        for rel, text in (extra_files or {}).items():
            full = os.path.join(ind, rel)
            os.makedirs(os.path.dirname(full), exist_ok=True)
            with open(full, "w") as fp:
                fp.write(text)
        # relative paths (cwd = workdir): nothing written by Shroud can then
        # contain the name of the scratch directory
        av = list(argv)
        if "--outdir" not in av:
            av += ["--outdir", outdir]
        if "--logdir" not in av:
            av += ["--logdir", outdir]
        if "--path" not in av:
            av += ["--path", "in"]
        av.append(os.path.join("in", name + ".yaml"))
        r = run_argv(av, cwd=workdir, mode=mode, env=env, timeout=timeout)
        r.files = read_tree(outd)
        return r
    finally:
        if own and not keep:
            shutil.rmtree(workdir, ignore_errors=True)
