"""Helpers for metamorphic checks: YAML document manipulation and directory comparison."""
import copy
import re

import yaml

from . import lex


def load(text):
    return yaml.safe_load(text) or {}


def dump(doc):
    return yaml.safe_dump(doc, sort_keys=False, width=1000, default_flow_style=False)


def walk_decls(doc):
    """Yield (path, node, parent_list) for every entry of every 'declarations' list."""
    def rec(lst, path):
        for i, n in enumerate(lst or []):
            if not isinstance(n, dict):
                continue
            yield path + (i,), n, lst
            if n.get("declarations"):
                for x in rec(n["declarations"], path + (i,)):
                    yield x
    return rec(doc.get("declarations"), ())


def get_node(doc, path):
    lst = doc["declarations"]
    node = None
    for i in path:
        node = lst[i]
        lst = node.get("declarations") or []
    return node


def decl_kind(node):
    d = (node.get("decl") or "").strip()
    # attributes are not part of the C++ declaration
    d = re.sub(r"\+\w+(\((?:[^()]|\([^()]*\))*\)|=\S+)?", "", d)
    if "block" in node:
        return "block"
    first = d.split()[0] if d.split() else ""
    if first.startswith("template<") or first == "template":
        first = "template"
    if first in ("class", "struct", "namespace", "enum", "typedef", "template"):
        if first == "template" and "class" not in d.split("(")[0]:
            return "function"
        if first == "struct" and "{" not in d and "(" in d:
            return "function"
        return first
    if "(" in d:
        return "function"
    return "variable"


def with_options(doc, opts, path=None):
    doc = copy.deepcopy(doc)
    node = doc if path is None else get_node(doc, path)
    o = dict(node.get("options") or {})
    o.update(opts)
    node["options"] = o
    return doc


def with_format(doc, fmt, path=None):
    doc = copy.deepcopy(doc)
    node = doc if path is None else get_node(doc, path)
    o = dict(node.get("format") or {})
    o.update(fmt)
    node["format"] = o
    return doc


SKIP_KINDS = ("json", "log")


def token_diff(files_a, files_b, skip=SKIP_KINDS):
    """Compare two output directories after comment removal.  Returns list of
    (relpath, description)."""
    diffs = []
    sa, sb = set(files_a), set(files_b)
    for f in sorted(sa ^ sb):
        if lex.file_kind(f) in skip:
            continue
        diffs.append((f, "only in %s run" % ("first" if f in sa else "second")))
    for f in sorted(sa & sb):
        k = lex.file_kind(f)
        if k in skip:
            continue
        if files_a[f] == files_b[f]:
            continue
        ta = lex.code_tokens(f, files_a[f])
        tb = lex.code_tokens(f, files_b[f])
        if ta is None:
            if files_a[f] != files_b[f]:
                diffs.append((f, "bytes differ (unclassified file kind)"))
            continue
        if ta != tb:
            i = next((j for j, (x, y) in enumerate(zip(ta, tb)) if x != y), min(len(ta), len(tb)))
            diffs.append((f, "token %d: %r vs %r" % (i, ta[max(0, i - 4):i + 5], tb[max(0, i - 4):i + 5])))
    return diffs


def byte_diff(files_a, files_b, skip_kinds=("log",), skip_names=()):
    diffs = []
    sa, sb = set(files_a), set(files_b)
    for f in sorted(sa ^ sb):
        if lex.file_kind(f) in skip_kinds or f in skip_names:
            continue
        diffs.append((f, "only in %s run" % ("first" if f in sa else "second")))
    for f in sorted(sa & sb):
        if lex.file_kind(f) in skip_kinds or f in skip_names:
            continue
        if files_a[f] != files_b[f]:
            a = files_a[f].decode("utf-8", "replace").split("\n")
            b = files_b[f].decode("utf-8", "replace").split("\n")
            i = next((j for j, (x, y) in enumerate(zip(a, b)) if x != y), min(len(a), len(b)))
            diffs.append((f, "line %d: %r vs %r" % (i + 1, a[i:i + 1], b[i:i + 1])))
    return diffs
